#!/usr/bin/env python3
"""Regenerates MANIFEST.json from checks.py + manifest_meta (kept in one place so it never drifts)."""
import json, subprocess, sys, os
ROOT = os.path.dirname(os.path.abspath(__file__))
sys.path.insert(0, ROOT)
from checks import CHECKS
from manifest_meta import META, NOT_APPLICABLE_REASON, HOOK_COMMITS, FIX_COMMITS

props = [json.loads(l)["id"] for l in open(os.path.join(ROOT, "properties.jsonl"))]
checks = []
for pid in props:
    if pid not in CHECKS or pid not in META:
        continue
    m = META[pid]
    checks.append({
        "property_id": pid,
        "quick_cmd": "python3 run.py %s quick" % pid,
        "thorough_cmd": "python3 run.py %s thorough" % pid,
        "evidence_file": "/verif/evidence/%s.json" % pid,
        "replay_cmd_template": "python3 run.py --replay {path}",
        "engine": "harness",
        "level_claimed": {"category": CHECKS[pid]["level"], "text": m["text"], "design_ref": m["design_ref"]},
        "level_note": m["note"],
        "technique": m["technique"],
    })
na = [{"property_id": p, "reason": NOT_APPLICABLE_REASON.get(p, "check not built yet in this session; no claim is made")}
      for p in props if p not in {c["property_id"] for c in checks}]
manifest = {
    "version": 1,
    "setup_cmd": "python3 run.py --setup",
    "hooks": {
        "guard": "verif (Go build tag)",
        "enable": "go test -c -tags verif (harness/go.mod replaces github.com/kelindar/column => /repo, so every check rebuilds /repo's working tree)",
        "baseline_off_cmd": "cd /repo && GOFLAGS=-mod=mod GOPROXY=off go test -vet=off -count=1 -timeout 25m ./...",
        "source_commits": HOOK_COMMITS,
        "add_only": True,
    },
    "engines": [{
        "name": "harness", "path": "/verif/harness",
        "serves_properties": [c["property_id"] for c in checks],
        "kind_free_text": "Go test binary (pgregory.net/rapid v1.3.0 stateful/property-based generators, exhaustive enumerators, cooperative scheduler, fault injectors, native go fuzz targets) driven by run.py",
    }],
    "checks": checks,
    "notes": "One family of technique: property-based testing / fuzzing against explicit oracles (reference model, round-trip, differential, history invariants). See DESIGN.md. known_findings.txt lists recorded defects and repaired ones. Unguarded fix: commits in /repo (each found by a check first): " + " ".join(FIX_COMMITS) + ".",
    "not_applicable": na,
}
json.dump(manifest, open(os.path.join(ROOT, "MANIFEST.json"), "w"), indent=1)
print("MANIFEST.json: %d checks, %d not claimed" % (len(checks), len(na)))
