#!/usr/bin/env python3
"""helper: add/replace an entry in checks.py and manifest_meta.py from a JSON-ish python literal file."""
import sys, pprint, ast
def load(path, name):
    ns = {}
    exec(open(path).read(), ns)
    return ns
def main():
    pid, specfile = sys.argv[1], sys.argv[2]
    spec = ast.literal_eval(open(specfile).read())
    ns = load('checks.py', 'CHECKS')
    CHECKS = ns['CHECKS']
    CHECKS[pid] = spec['check']
    with open('checks.py', 'w') as f:
        f.write('"""Per-property table used by run.py: which harness tests decide a property, with what budgets."""\n\nCHECKS = ')
        f.write(pprint.pformat(dict(sorted(CHECKS.items())), width=150, sort_dicts=False))
        f.write('\n')
    ns = load('manifest_meta.py', 'META')
    META = ns['META']
    META[pid] = spec['meta']
    with open('manifest_meta.py', 'w') as f:
        f.write('"""Texts for MANIFEST.json (level claimed, trusted base, technique) per property."""\n\n')
        f.write('HOOK_COMMITS = %r\nFIX_COMMITS = %r\n\nNOT_APPLICABLE_REASON = %s\n\nMETA = ' % (ns['HOOK_COMMITS'], ns.get('FIX_COMMITS', []), pprint.pformat(ns['NOT_APPLICABLE_REASON'])))
        f.write(pprint.pformat(dict(sorted(META.items())), width=150, sort_dicts=False))
        f.write('\n')
main()
