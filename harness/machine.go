package harness

import (
	"bytes"
	"fmt"
	"io"
	"math"
	"runtime"
	"sort"
	"strings"
	"sync"
	"sync/atomic"
	"time"

	"github.com/kelindar/column"
	"github.com/klauspost/compress/s2"
	"pgregory.net/rapid"
)

// ---------------------------------------------------------------------------
// History machine shared by the history-quantified properties. A property test
// builds a Machine, wires the actions it wants into rapid's t.Repeat and adds
// its own observers.
// ---------------------------------------------------------------------------

type Machine struct {
	WideInts    bool         // C04: integer columns hold full-range values, Sum/Avg are not judged
	freeIxNames []string     // names of dropped indexes (may be used again)
	dropped     map[int]bool // columns removed with DropColumn (may be re-created by ActLateColumn)
	lastBeat    int64        // unix nanoseconds of the last sign of progress (atomic)
	stopBeat    chan struct{}
	traceMu     sync.Mutex
	// C14: a second Snapshot call issued at this yield point of a snapshot in progress (see installTail)
	OverlapAt   string
	OverlapRan  bool
	OverlapErr  error
	OverlapBuf  bytes.Buffer
	OverlapRows int
	// C14: a LARGE transaction (well over the 1 MiB block of the recorder's stream) that runs at this
	// yield point of the snapshot in progress (see installTail)
	BigTailAt string
	BigTail   func()
	Prop      string
	Sch       *Schema
	M         *Model
	C         *column.Collection
	Opts      column.Options

	Trace  []string
	Flags  map[string]bool
	Recent []uint32

	Indexes []*IndexState
	ixSeq   int

	everDeleted        map[uint32][]bool
	prevDeleted        map[uint32][]bool // everDeleted as of the start of the current action // offsets deleted at some point -> columns that held a value when deleted
	actions            int
	bigPrefills        int
	prefillSeq         int
	lastRes            []StepResult
	lastPrefillBase    int
	lastPrefillOffsets []uint32

	// observers
	OnTxn    func(spec TxnSpec, res []StepResult, committed bool, eff *TxnEffect) // after model update
	InFlight func(i int, txn *column.Txn, res []StepResult)                       // inside the body, after step i
}

func NewMachine(prop string, sch *Schema, opts column.Options) *Machine {
	mc := &Machine{Prop: prop, Sch: sch, M: NewModel(sch), Opts: opts, Flags: map[string]bool{}, everDeleted: map[uint32][]bool{}}
	mc.C = newCollection(sch, opts)
	mc.logf("schema %s", sch)
	// A sequential history makes progress all the time (every action, check and logged line is a
	// heartbeat). If nothing happens for several minutes, a call into the library has not come
	// back: with a single goroutine at work that is a lock which is never released.
	mc.stopBeat = make(chan struct{})
	limit := time.Duration(envInt("VERIF_WATCHDOG_S", 300)) * time.Second
	go func() {
		// counted in ticks during which no beat arrived, not read off the clock: a process (or
		// machine) that was stopped for ten minutes loses one tick, not the whole limit
		tick := time.NewTicker(time.Second)
		defer tick.Stop()
		seen, idle := int64(-1), 0
		for {
			select {
			case <-mc.stopBeat:
				return
			case <-tick.C:
				if last := atomic.LoadInt64(&mc.lastBeat); last != seen {
					seen, idle = last, 0
				} else if idle++; idle > int(limit/time.Second) {
					watchdogFire(mc.Prop, "a step of a sequential history", limit, func() string {
						return "(the last lines of the trace; the step after the last line is the one that hangs)\n" + mc.tailTrace(40)
					})
					select {}
				}
			}
		}
	}()
	return mc
}

func (mc *Machine) Close() {
	close(mc.stopBeat)
	mc.C.Close()
}

// beat records progress (see NewMachine).
func (mc *Machine) beat() { atomic.StoreInt64(&mc.lastBeat, time.Now().UnixNano()) }

func (mc *Machine) tailTrace(n int) string {
	mc.traceMu.Lock()
	defer mc.traceMu.Unlock()
	tr := mc.Trace
	if len(tr) > n {
		tr = tr[len(tr)-n:]
	}
	return strings.Join(tr, "\n")
}

func (mc *Machine) logf(format string, args ...any) {
	mc.beat()
	mc.traceMu.Lock()
	mc.Trace = append(mc.Trace, fmt.Sprintf(format, args...))
	mc.traceMu.Unlock()
}

func (mc *Machine) Desc() string { return strings.Join(mc.Trace, "\n") }

func (mc *Machine) flag(name string) { mc.Flags[name] = true }

func (mc *Machine) Labels() []string {
	out := make([]string, 0, len(mc.Flags))
	for k := range mc.Flags {
		out = append(out, k)
	}
	sort.Strings(out)
	return out
}

func (mc *Machine) touch(off uint32) {
	mc.Recent = append(mc.Recent, off)
	if len(mc.Recent) > 16 {
		mc.Recent = mc.Recent[len(mc.Recent)-16:]
	}
}

// fail reports a violation with the trace.
func (mc *Machine) fail(t *rapid.T, format string, args ...any) {
	t.Helper()
	t.Fatalf("%s violated: %s\n--- history ---\n%s", mc.Prop, fmt.Sprintf(format, args...), mc.Desc())
}

// noteDeleted remembers which columns a deleted row held (for the "reuse" and
// "stale data" non-triviality rules).
func (mc *Machine) noteDeleted(off uint32, row MRow) {
	held := make([]bool, len(row))
	for i, c := range row {
		held[i] = c.Has
	}
	mc.everDeleted[off] = held
}

// RunTxn executes a generated transaction on the collection and the model and
// performs the per-transaction checks (return values, insert offsets, count).
func (mc *Machine) RunTxn(t *rapid.T, spec TxnSpec, direct bool) (*TxnEffect, bool) {
	mc.logf("%s%s", mc.Sch.renderTxn(spec), map[bool]string{true: " (collection-level call)", false: ""}[direct])
	before := map[uint32]MRow{}
	for _, st := range spec.Steps {
		if st.Kind == SDelete {
			if r, ok := mc.M.Rows[st.Row]; ok {
				before[st.Row] = r
			}
		}
		if st.Kind == SDeleteKey {
			if at, ok := mc.M.KeyOf(st.Key); ok {
				before[at] = mc.M.Rows[at]
			}
		}
	}
	var res []StepResult
	var err error
	ran := false
	if direct {
		res, err, ran = execDirect(mc.C, mc.Sch, mc.M.ColLive, spec)
	}
	if !ran {
		res, err = execTxnObs(mc.C, mc.Sch, mc.M.ColLive, spec, mc.InFlight)
	}
	mc.lastRes = res
	committed := err == nil
	if (spec.FailAt >= 0) == committed && !(direct && ran) {
		mc.fail(t, "Query returned err=%v for a body that returned error=%v", err, spec.FailAt >= 0)
	}
	var offs []string
	for i, r := range res {
		if r.Ran && (spec.Steps[i].Kind == SInsert || spec.Steps[i].Kind == SInsertKey || spec.Steps[i].Kind == SUpsertKey) {
			offs = append(offs, fmt.Sprintf("step%d->%d", i, r.Offset))
		}
	}
	if len(offs) > 0 {
		mc.logf("  offsets: %s", strings.Join(offs, " "))
	}
	eff, verr := mc.M.CheckAndApply(spec, res, committed)
	if verr != nil {
		mc.fail(t, "%v", verr)
	}
	if committed {
		for _, off := range eff.Deleted {
			mc.noteDeleted(off, before[off])
		}
		for _, off := range eff.Inserted {
			if _, was := mc.everDeleted[off]; was {
				mc.flag("reuse")
			}
			mc.touch(off)
		}
		for off := range eff.Touched {
			if off >= 16384 {
				mc.flag("multiblock")
			}
		}
		mc.classifyTxn(spec, res)
	} else {
		mc.flag("rollback")
	}
	for _, st := range spec.Steps {
		if st.Kind == SUpdate {
			mc.touch(st.Row)
		}
	}
	if mc.OnTxn != nil {
		mc.OnTxn(spec, res, committed, eff)
	}
	return eff, committed
}

func (mc *Machine) classifyTxn(spec TxnSpec, res []StepResult) {
	type rc struct {
		row uint32
		col int
	}
	seen := map[rc]int{}
	last := int64(-1)
	blocks := map[uint32]bool{}
	for i, st := range spec.Steps {
		var row uint32
		switch st.Kind {
		case SUpdate:
			row = st.Row
		case SOwnUpdate:
			row = res[st.Row].Offset
			mc.flag("own-update")
		case SInsert, SInsertKey, SUpsertKey, SQueryKey:
			if !res[i].Ran {
				continue
			}
			row = res[i].Offset
		default:
			continue
		}
		blocks[row>>14] = true
		if int64(row) < last {
			mc.flag("descending")
		}
		last = int64(row)
		for _, s := range st.Stores {
			k := rc{row, s.Col}
			seen[k]++
			if seen[k] > 1 {
				mc.flag("multiwrite")
			}
			if s.Merge {
				mc.flag("merge")
			}
			if mc.Sch.Cols[s.Col].Late {
				mc.flag("late-written")
			}
		}
	}
	if len(blocks) > 1 {
		mc.flag("multiblock-txn")
	}
}

// ActTxn draws and runs one transaction.
func (mc *Machine) ActTxn(t *rapid.T, cfg TxnCfg) (*TxnEffect, bool) {
	spec := genTxn(t, mc.M, mc.Recent, cfg)
	direct := cfg.Direct && len(spec.Steps) == 1 && spec.FailAt < 0 && rapid.Bool().Draw(t, "direct")
	eff, committed := mc.RunTxn(t, spec, direct)
	if committed {
		mc.CheckTouched(t, eff)
	}
	mc.CheckCount(t)
	return eff, committed
}

// splitmix64 — values of bulk prefills are a pure function of (seed, row, column).
func splitmix(x uint64) uint64 {
	x += 0x9e3779b97f4a7c15
	x = (x ^ (x >> 30)) * 0xbf58476d1ce4e5b9
	x = (x ^ (x >> 27)) * 0x94d049bb133111eb
	return x ^ (x >> 31)
}

func prefillValue(cs ColSpec, seed uint64, i int, col int) Value {
	h := splitmix(seed ^ uint64(i)*0x100000001b3 ^ uint64(col)<<56)
	switch cs.Kind {
	case KString:
		return Value{S: fmt.Sprintf("s%d", h%7)}
	case KEnum:
		return Value{S: enumAlphabet[h%uint64(len(enumAlphabet)-1)]}
	case KRecord:
		c := uint16(0)
		if h%4 == 0 {
			c = uint16(h>>8)%9 + 1
		}
		return Value{S: recBytes3(uint32(h), fmt.Sprintf("r%d", h%3), c)}
	case KBool:
		return Value{B: h & 1}
	case KFloat32, KFloat64:
		f := float64(int64(h%2000)-1000) / 4
		if (h>>20)%4 == 0 {
			// one value in four is a zero, half of them negative: neighbours that compare equal without being the same value
			f = 0
			if (h>>24)&1 == 1 {
				f = math.Copysign(0, -1)
			}
		}
		if cs.Kind == KFloat32 {
			return Value{B: canon(KFloat32, uint64(float32ToBits(float32(f))))}
		}
		return Value{B: float64ToBits(f)}
	}
	if !cs.Kind.Signed() {
		return Value{B: canon(cs.Kind, h%1001)}
	}
	return Value{B: canon(cs.Kind, h%2001-1000)}
}

// ActPrefill inserts n rows in one transaction; each row stores into the given
// columns (values are a pure function of a drawn seed).
func (mc *Machine) ActPrefill(t *rapid.T, n int, cols []int, seed uint64) {
	mc.logf("prefill n=%d cols=%v seed=%#x", n, cols, seed)
	offsets := make([]uint32, 0, n)
	keyed := mc.Sch.Key >= 0
	mc.prefillSeq++
	base := mc.prefillSeq
	mc.lastPrefillBase = base
	err := mc.C.Query(func(txn *column.Txn) error {
		for i := 0; i < n; i++ {
			body := func(r column.Row) error {
				for _, ci := range cols {
					writeStore(txn, r, mc.Sch.Cols[ci], Store{Col: ci, Val: prefillValue(mc.Sch.Cols[ci], seed, i, ci), Via: uint8(i % 2)})
				}
				offsets = append(offsets, r.Index())
				return nil
			}
			if keyed {
				if err := txn.InsertKey(fmt.Sprintf("p%d_%d_%x", base, i, seed&0xffff), body); err != nil {
					return err
				}
			} else if _, err := txn.Insert(body); err != nil {
				return err
			}
		}
		return nil
	})
	if err != nil {
		mc.fail(t, "prefill transaction failed: %v", err)
	}
	mc.lastPrefillOffsets = offsets
	if len(offsets) != n {
		mc.fail(t, "prefill: %d insert callbacks ran, want %d", len(offsets), n)
	}
	for i, off := range offsets {
		if _, live := mc.M.Rows[off]; live {
			mc.fail(t, "prefill insert #%d was given offset %d, which holds a live row (or was given out twice)", i, off)
		}
		row := make(MRow, len(mc.Sch.Cols))
		for _, ci := range cols {
			mc.M.applyStore(row, Store{Col: ci, Val: prefillValue(mc.Sch.Cols[ci], seed, i, ci)})
		}
		if keyed {
			row[mc.Sch.Key] = Cell{Has: true, V: Value{S: fmt.Sprintf("p%d_%d_%x", base, i, seed&0xffff)}}
		}
		mc.M.Rows[off] = row
		if _, was := mc.everDeleted[off]; was {
			mc.flag("reuse")
		}
		if off >= 16384 {
			mc.flag("multiblock")
		}
	}
	mc.M.dirty()
	if n > 0 {
		mc.touch(offsets[0])
		mc.touch(offsets[n-1])
	}
	if n >= 1000 {
		mc.flag("bulk-prefill")
	}
	mc.CheckCount(t)
}

// bulkDeleteTargets computes the rows a patterned bulk delete removes.
func bulkDeleteTargets(live []uint32, pattern int, a, b int) []uint32 {
	var out []uint32
	switch pattern {
	case 0: // a range of the live list
		lo, hi := a%len(live), b%len(live)
		if lo > hi {
			lo, hi = hi, lo
		}
		out = append(out, live[lo:hi+1]...)
	case 1: // every k-th row
		k := a%7 + 2
		for i := b % k; i < len(live); i += k {
			out = append(out, live[i])
		}
	case 2: // all but one bit of every 64-bit word
		keep := uint32(a % 64)
		for _, off := range live {
			if off%64 != keep {
				out = append(out, off)
			}
		}
	case 3: // the whole first block
		for _, off := range live {
			if off < 16384 {
				out = append(out, off)
			}
		}
	case 4: // everything except k rows spread over the live list
		k := a%5 + 1
		keep := map[int]bool{}
		for i := 0; i < k; i++ {
			keep[(b+i*len(live)/k)%len(live)] = true
		}
		for i, off := range live {
			if !keep[i] {
				out = append(out, off)
			}
		}
	case 5: // whole 64-bit words
		w := uint32(a % 4)
		for _, off := range live {
			if (off>>6)%4 == w {
				out = append(out, off)
			}
		}
	case 7: // every row of the highest populated block (the block stays allocated but empty)
		top := live[len(live)-1] >> 14
		for _, off := range live {
			if off>>14 == top {
				out = append(out, off)
			}
		}
	case 6: // the tail: last k rows
		k := a%130 + 1
		if k > len(live) {
			k = len(live)
		}
		out = append(out, live[len(live)-k:]...)
	}
	return out
}

// deleteAllPlan: Txn.DeleteAll over a selection: everything (pattern 9, or no usable name), or
// the rows selected by With(name) / Without(name) where name is a value column (presence), a
// bool column (truth) or an index of the machine. Returns the rows the model expects to go.
func (mc *Machine) deleteAllPlan(pattern, a, b int) (name string, without bool, targets []uint32) {
	var names []string
	for i, cs := range mc.Sch.Cols {
		if mc.M.ColLive[i] && cs.Kind != KKey {
			names = append(names, cs.Name)
		}
	}
	for _, st := range mc.Indexes {
		names = append(names, st.Spec.Name)
	}
	if pattern == 8 && len(names) > 0 {
		name = names[a%len(names)]
		without = b%2 == 1
	}
	set, _ := mc.nameSet(name)
	for _, off := range mc.M.Live() {
		if name == "" || set[off] != without {
			targets = append(targets, off)
		}
	}
	return
}

// runDeleteAll runs one transaction [filter; DeleteAll] that commits, or fails afterwards.
func runDeleteAll(c *column.Collection, name string, without, fail bool) error {
	return c.Query(func(txn *column.Txn) error {
		switch {
		case name != "" && without:
			txn.Without(name)
		case name != "":
			txn.With(name)
		}
		txn.DeleteAll()
		if fail {
			return errRollback
		}
		return nil
	})
}

// ActBulkDelete deletes a patterned set of rows in one transaction.
func (mc *Machine) ActBulkDelete(t *rapid.T) {
	live := mc.M.Live()
	if len(live) == 0 {
		t.Skip("nothing to delete")
	}
	pattern := rapid.IntRange(0, 9).Draw(t, "pattern")
	a, b := rapid.IntRange(0, 1<<20).Draw(t, "a"), rapid.IntRange(0, 1<<20).Draw(t, "b")
	bad := uint32(0)
	nbad := 0
	var targets []uint32
	if pattern >= 8 {
		name, without, tg := mc.deleteAllPlan(pattern, a, b)
		targets = tg
		mc.logf("bulkDelete DeleteAll name=%q without=%v (%d of %d rows)", name, without, len(targets), len(live))
		runDeleteAll(mc.C, name, without, false)
		mc.flag("delete-all")
	} else {
		targets = bulkDeleteTargets(live, pattern, a, b)
		mc.logf("bulkDelete pattern=%d a=%d b=%d (%d of %d rows)", pattern, a, b, len(targets), len(live))
		_ = mc.C.Query(func(txn *column.Txn) error {
			for _, off := range targets {
				if !txn.DeleteAt(off) {
					bad, nbad = off, nbad+1
				}
			}
			return nil
		})
	}
	if nbad > 0 {
		mc.fail(t, "bulk delete: DeleteAt returned false for %d live rows (e.g. %d)", nbad, bad)
	}
	for _, off := range targets {
		mc.noteDeleted(off, mc.M.Rows[off])
		delete(mc.M.Rows, off)
	}
	mc.M.dirty()
	mc.flag("bulk-delete")
	mc.CheckCount(t)
}

// ActLateColumn creates one of the schema's late columns.
func (mc *Machine) ActLateColumn(t *rapid.T, mirrors ...*column.Collection) {
	var pending []int
	for i, cs := range mc.Sch.Cols {
		if (cs.Late || mc.dropped[i]) && !mc.M.ColLive[i] {
			pending = append(pending, i)
		}
	}
	if len(pending) == 0 {
		t.Skip("no late column left")
	}
	ci := pending[rapid.IntRange(0, len(pending)-1).Draw(t, "late-col")]
	mc.logf("createColumn %s (rows=%d)", mc.Sch.Cols[ci], len(mc.M.Rows))
	for _, c := range append([]*column.Collection{mc.C}, mirrors...) {
		if err := c.CreateColumn(mc.Sch.Cols[ci].Name, newColumn(mc.Sch.Cols[ci])); err != nil {
			mc.fail(t, "CreateColumn(%s): %v", mc.Sch.Cols[ci].Name, err)
		}
	}
	mc.M.ColLive[ci] = true
	if len(mc.M.Rows) > 0 {
		mc.flag("late-column")
	}
	if mc.dropped[ci] {
		mc.flag("column-re-created-after-drop")
		delete(mc.dropped, ci)
	}
}

// ActDropColumn drops a value column that no index of the machine is built on; it may come back
// later (ActLateColumn) as a brand-new column of the same name: nothing of its former values may
// show through.
func (mc *Machine) ActDropColumn(t *rapid.T, mirrors ...*column.Collection) {
	var cands []int
	for i, cs := range mc.Sch.Cols {
		if i == 0 || !mc.M.ColLive[i] || cs.Kind == KKey {
			continue
		}
		indexed := false
		for _, st := range mc.Indexes {
			if st.Spec.Col == i {
				indexed = true
			}
		}
		if !indexed {
			cands = append(cands, i)
		}
	}
	if len(cands) <= 1 {
		t.Skip("no column to drop (one value column is always kept)")
	}
	ci := cands[rapid.IntRange(0, len(cands)-1).Draw(t, "drop-col")]
	mc.logf("dropColumn %s (rows=%d)", mc.Sch.Cols[ci].Name, len(mc.M.Rows))
	for _, c := range append([]*column.Collection{mc.C}, mirrors...) {
		c.DropColumn(mc.Sch.Cols[ci].Name)
	}
	mc.M.ColLive[ci] = false
	for _, row := range mc.M.Rows {
		row[ci] = Cell{}
	}
	for _, held := range mc.everDeleted {
		if ci < len(held) {
			held[ci] = false
		}
	}
	if mc.dropped == nil {
		mc.dropped = map[int]bool{}
	}
	mc.dropped[ci] = true
	mc.M.dirty()
	mc.flag("column-dropped")
}

// CheckCount compares Collection.Count with the model.
func (mc *Machine) CheckCount(t *rapid.T) {
	mc.beat()
	if got := mc.C.Count(); got != mc.M.Count() {
		mc.fail(t, "Count() = %d, model has %d live rows", got, mc.M.Count())
	}
}

// CheckRows reads the given live rows through two different reader paths and
// compares with the model.
func (mc *Machine) CheckRows(t *rapid.T, rows []uint32, pathA, pathB int) {
	mc.beat()
	for _, off := range rows {
		want, ok := mc.M.Rows[off]
		if !ok {
			continue
		}
		for _, p := range []int{pathA, pathB} {
			got, err := readRowAt(mc.C, mc.Sch, mc.M.ColLive, off, p)
			if err != nil {
				mc.fail(t, "reading row %d (path %d): %v", off, p, err)
			}
			if d := mc.M.diffRow(off, want, got, fmt.Sprintf("point read (path %d)", p)); d != "" {
				mc.fail(t, "%s", d)
			}
		}
	}
}

// CheckTouched verifies the rows a transaction touched, plus a few others.
func (mc *Machine) CheckTouched(t *rapid.T, eff *TxnEffect) {
	rows := make([]uint32, 0, len(eff.Touched))
	for off := range eff.Touched {
		rows = append(rows, off)
	}
	sort.Slice(rows, func(i, j int) bool { return rows[i] < rows[j] })
	if len(rows) > 40 {
		rows = rows[:40]
	}
	mc.actions++
	mc.CheckRows(t, rows, mc.actions%numReadPaths, (mc.actions/numReadPaths+1+mc.actions)%numReadPaths)
	if len(mc.M.Rows) <= 200 {
		mc.CheckFull(t, mc.actions%2 == 0)
	}
}

// CheckFull extracts the whole collection through Range and compares it with
// the model (rows, values, count, order).
func (mc *Machine) CheckFull(t *rapid.T, useAny bool) {
	mc.beat()
	got, txnCount, err := extractRange(mc.C, mc.Sch, mc.M.ColLive, useAny)
	if err != nil {
		mc.fail(t, "full read: %v", err)
	}
	if txnCount != mc.M.Count() {
		mc.fail(t, "txn.Count() = %d, model has %d live rows", txnCount, mc.M.Count())
	}
	if d := mc.M.diffStates(got, "full read (Range)"); d != "" {
		mc.fail(t, "%s", d)
	}
	mc.CheckCount(t)
}

func float32ToBits(f float32) uint32 { return math.Float32bits(f) }
func float64ToBits(f float64) uint64 { return math.Float64bits(f) }

// Guard turns a panic inside kelindar/column into a reported failure that
// carries the history (rapid would otherwise print only the stack). rapid's
// own control-flow panics are passed through untouched.
func (mc *Machine) Guard(t *rapid.T) {
	if r := recover(); r != nil {
		if strings.HasPrefix(fmt.Sprintf("%T", r), "rapid.") {
			panic(r)
		}
		buf := make([]byte, 1<<14)
		buf = buf[:runtime.Stack(buf, false)]
		t.Fatalf("%s violated: panic: %v\n%s\n--- history ---\n%s", mc.Prop, r, trimStack(string(buf)), mc.Desc())
	}
}

func trimStack(s string) string {
	lines := strings.Split(s, "\n")
	var out []string
	for _, l := range lines {
		if strings.Contains(l, "kelindar/column") || strings.Contains(l, "verifharness") {
			out = append(out, strings.TrimSpace(l))
		}
		if len(out) > 24 {
			break
		}
	}
	return strings.Join(out, "\n")
}

// CheckKeys verifies, for every key of the alphabet (and every key the model
// holds), that lookups by key agree with the model.
func (mc *Machine) CheckKeys(t *rapid.T, extra ...string) {
	mc.beat()
	if mc.Sch.Key < 0 {
		return
	}
	keys := append(append([]string{}, keyAlphabet...), extra...)
	live := mc.M.Live()
	if len(live) <= 64 {
		for _, off := range live {
			if c := mc.M.Rows[off][mc.Sch.Key]; c.Has {
				keys = append(keys, c.V.S)
			}
		}
	}
	seen := map[string]bool{}
	for _, k := range keys {
		if seen[k] {
			continue
		}
		seen[k] = true
		owners := mc.M.KeyOwners(k)
		if len(owners) > 1 {
			mc.fail(t, "model holds key %q on rows %v (the generator must not create duplicates)", k, owners)
		}
		ran := false
		var at uint32
		var rowKey string
		var rowKeyOK bool
		err := mc.C.QueryKey(k, func(r column.Row) error {
			ran, at = true, r.Index()
			rowKey, rowKeyOK = r.Key()
			return nil
		})
		if len(owners) == 0 {
			if err == nil || ran {
				mc.fail(t, "QueryKey(%q): key is absent in the model but the lookup reached row %d (err=%v)", k, at, err)
			}
			continue
		}
		if err != nil || !ran {
			mc.fail(t, "QueryKey(%q): key is held by row %d in the model but the lookup failed: %v", k, owners[0], err)
		}
		if at != owners[0] {
			mc.fail(t, "QueryKey(%q) reached row %d, the model has the key on row %d", k, at, owners[0])
		}
		if !rowKeyOK || rowKey != k {
			mc.fail(t, "QueryKey(%q) reached row %d whose Key() is %q,%v", k, at, rowKey, rowKeyOK)
		}
	}
}

// snapshotDeleted freezes the set of previously deleted offsets before an action
// (the action itself adds to everDeleted).
func (mc *Machine) snapshotDeleted() {
	mc.prevDeleted = make(map[uint32][]bool, len(mc.everDeleted))
	for k, v := range mc.everDeleted {
		mc.prevDeleted[k] = v
	}
}

// ActFailedRestore lets a history START on a collection whose Restore from a damaged snapshot
// failed: a fixture collection of the same schema (n rows over several blocks) is snapshotted,
// the state stream is re-framed into 4 KiB s2 blocks (so that a cut leaves some blocks of rows
// restored and the rest missing) and truncated at a drawn position; Restore of that prefix into
// the machine's (empty) collection - and into the given mirrors - returns an error or nil. The
// reference model then starts from whatever Restore left behind; every later transaction must
// behave as on any other collection.
func (mc *Machine) ActFailedRestore(t *rapid.T, mirrors ...*column.Collection) {
	if len(mc.M.Rows) != 0 {
		return
	}
	n := rapid.SampledFrom([]int{16390, 33000, 49200}).Draw(t, "fixture-rows")
	cols := storableCols(mc.M, TxnCfg{})
	if len(cols) > 2 {
		cols = cols[:2]
	}
	seed := rapid.Uint64().Draw(t, "fixture-seed")
	fc := newCollectionLive(mc.Sch, mc.M.ColLive, column.Options{})
	defer fc.Close()
	keyed := mc.Sch.Key >= 0
	if err := fc.Query(func(txn *column.Txn) error {
		for i := 0; i < n; i++ {
			body := func(r column.Row) error {
				for _, ci := range cols {
					writeStore(txn, r, mc.Sch.Cols[ci], Store{Col: ci, Val: prefillValue(mc.Sch.Cols[ci], seed, i, ci), Via: uint8(i % 2)})
				}
				return nil
			}
			if keyed {
				if err := txn.InsertKey(fmt.Sprintf("f%d", i), body); err != nil {
					return err
				}
			} else if _, err := txn.Insert(body); err != nil {
				return err
			}
		}
		return nil
	}); err != nil {
		mc.fail(t, "fixture: %v", err)
	}
	var snap bytes.Buffer
	if err := fc.Snapshot(&snap); err != nil {
		mc.fail(t, "fixture Snapshot: %v", err)
	}
	raw, err := io.ReadAll(s2.NewReader(bytes.NewReader(snap.Bytes())))
	if err != nil {
		mc.fail(t, "fixture: decoding the state stream: %v", err)
	}
	var small bytes.Buffer
	w := s2.NewWriter(&small, s2.WriterBlockSize(4<<10))
	w.Write(raw)
	w.Close()
	cut := small.Len() * rapid.IntRange(5, 98).Draw(t, "cut-percent") / 100
	data := small.Bytes()[:cut]
	// The expected state comes from a PROBE collection that restores the same bytes: the machine's
	// own collection must not run any transaction (not even a read-only one) before the first
	// generated transaction - whatever a failed Restore leaves in pooled objects is for that one.
	probe := newCollectionLive(mc.Sch, mc.M.ColLive, column.Options{})
	defer probe.Close()
	outcome := ""
	for i, c := range append([]*column.Collection{probe, mc.C}, mirrors...) {
		rerr, bad := guarded(func() error { return c.Restore(bytes.NewReader(data)) })
		if bad != "" {
			mc.fail(t, "Restore of a truncated snapshot (%d of %d bytes): %s", cut, small.Len(), bad)
		}
		if i == 0 {
			outcome = fmt.Sprint(rerr)
		}
	}
	got, _, xerr := extractRange(probe, mc.Sch, mc.M.ColLive, false)
	if xerr != nil {
		mc.fail(t, "reading the collection after the failed Restore: %v", xerr)
	}
	mc.M.Rows = got
	mc.M.dirty()
	mc.logf("history starts after Restore of a truncated snapshot (fixture %d rows, %d of %d bytes) returned %s: %d rows restored", n, cut, small.Len(), outcome, len(got))
	mc.flag("starts-after-failed-restore")
	if len(got) > 16384 {
		mc.flag("multiblock")
	}
	mc.CheckCount(t)
}
