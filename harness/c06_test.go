package harness

import (
	"bytes"
	"encoding/binary"
	"fmt"
	"io"
	"os"
	"path/filepath"
	"sync"
	"testing"

	"github.com/kelindar/column"
	"github.com/kelindar/column/commit"
	"github.com/klauspost/compress/s2"
	"pgregory.net/rapid"
)

// ---------------------------------------------------------------------------
// C06 — a replica fed the change stream converges to the primary (sequential part)
// ---------------------------------------------------------------------------

func TestC06(t *testing.T) {
	tmp := t.TempDir()
	caseNo := 0
	rapid.Check(t, func(t *rapid.T) {
		caseNo++
		sch := genSchema(t, SchemaCfg{Key: 1, Late: true, Merges: true, EnsureLenMerge: true, MinCols: 1, MaxCols: 5})
		ch := make(commit.Channel, 64)
		// serialized log: in memory, and every 4th case through a real file
		var mem bytes.Buffer
		var logFile string
		var serial *commit.Log
		if caseNo%4 == 0 {
			logFile = filepath.Join(tmp, "c06.log")
			os.Remove(logFile)
			var err error
			if serial, err = commit.OpenFile(logFile); err != nil {
				t.Fatalf("OpenFile: %v", err)
			}
			defer serial.Close()
		} else {
			serial = commit.Open(&mem)
		}
		mc := NewMachine("C06", sch, column.Options{Writer: multiLogger{ch, serial}})
		defer mc.Close()
		defer mc.Guard(t)
		// the replica has a change stream of its own (chain replication): what it replays must be
		// emitted again, so that a collection fed from the REPLICA's stream converges as well
		ch2 := make(commit.Channel, 256)
		replica := newCollection(sch, column.Options{Writer: ch2})
		defer replica.Close()
		tail := newCollection(sch, column.Options{})
		defer tail.Close()
		cfg := TxnCfg{Prop: "C06", MaxSteps: 10, Peeks: true, Rollback: true, Deletes: true, Inserts: true, Merges: true, OwnUpdates: true, KeyOps: true, Direct: true,
			NoStoreOnDel: KFActive("f11-store-and-delete-same-txn"), NoOpAfterLenMerge: KFActive("f15-difflen-merge-reorder")}
		replayed := 0
		sync := func(t *rapid.T) {
			for {
				select {
				case cm := <-ch:
					if err := replica.Replay(cm); err != nil {
						mc.fail(t, "Replay on the replica failed: %v", err)
					}
					for len(ch2) > 0 {
						if err := tail.Replay(<-ch2); err != nil {
							mc.fail(t, "Replay on the second-level replica failed: %v", err)
						}
					}
					replayed++
					continue
				default:
				}
				break
			}
		}
		syncs := 0
		t.Repeat(map[string]func(*rapid.T){
			"txn": func(t *rapid.T) {
				mc.ActTxn(t, cfg)
				mc.CheckIndexes(t, mc.C, "primary after a transaction", nil)
				sync(t)
			},
			"txn2": func(t *rapid.T) {
				mc.ActTxn(t, cfg)
				mc.CheckIndexes(t, mc.C, "primary after a transaction", nil)
				sync(t)
				mc.CheckIndexes(t, replica, "replica after replaying a transaction", nil)
			},
			"prefill":    func(t *rapid.T) { mc.prefillAction(t); sync(t) },
			"bulkDelete": func(t *rapid.T) { mc.ActBulkDelete(t); sync(t) },
			// the primary writes a snapshot while 1..2 transactions commit (run by the hooks at a drawn point
			// of the snapshot): those commits go to the snapshot's recorder AND must still reach the stream
			"txnDuringSnapshot": func(t *rapid.T) {
				sync(t)
				point := rapid.SampledFrom([]string{"snapshot:recorder-open", "snapshot:pre-chunk:0", "snapshot:pre-close", "snapshot:pre-copy"}).Draw(t, "snapshot-point")
				mc.logf("snapshot of the primary with transactions at %s", point)
				remove := mc.installTail(t, map[string]int{point: rapid.IntRange(1, 2).Draw(t, "n")}, cfg, func(string, *TxnEffect, bool) { mc.flag("commit-during-snapshot") })
				err := mc.C.Snapshot(io.Discard)
				remove()
				if err != nil {
					mc.fail(t, "Snapshot of the primary: %v", err)
				}
				sync(t)
			},
			"lateColumn": func(t *rapid.T) {
				sync(t)
				before := append([]bool{}, mc.M.ColLive...)
				mc.ActLateColumn(t)
				for i := range before {
					if !before[i] && mc.M.ColLive[i] {
						if err := replica.CreateColumn(sch.Cols[i].Name, newColumn(sch.Cols[i])); err != nil {
							mc.fail(t, "CreateColumn on the replica: %v", err)
						}
						if err := tail.CreateColumn(sch.Cols[i].Name, newColumn(sch.Cols[i])); err != nil {
							mc.fail(t, "CreateColumn on the second-level replica: %v", err)
						}
					}
				}
			},
			"createIndex": func(t *rapid.T) { sync(t); mc.ActCreateIndex(t, replica) },
			"dropIndex":   func(t *rapid.T) { sync(t); mc.ActDropIndex(t, replica) },
			"compare": func(t *rapid.T) {
				sync(t)
				if len(mc.M.Rows) > 2000 && syncs > 2 {
					t.Skip("large state compared often enough")
				}
				syncs++
				mc.logf("compare primary and replica")
				mc.CheckIndexes(t, mc.C, "primary (intermediate point)", nil)
				mc.CheckDerived(t, replica, "replica fed through commit.Channel (intermediate point)", syncs%2 == 0)
			},
		})
		sync(t)
		mc.CheckFull(t, false)
		mc.CheckIndexes(t, mc.C, "primary at the end", nil)
		mc.CheckDerived(t, replica, "replica fed through commit.Channel", false)
		{
			// the second-level replica has no indexes: compare rows, values, keys and counts
			got, cnt, err := extractRange(tail, mc.Sch, mc.M.ColLive, false)
			if err != nil {
				mc.fail(t, "second-level replica: full read: %v", err)
			}
			if d := mc.M.diffStates(got, "second-level replica (fed from the change stream the first replica emits while replaying)"); d != "" {
				mc.fail(t, "%s", d)
			}
			if cnt != mc.M.Count() || tail.Count() != mc.M.Count() {
				mc.fail(t, "second-level replica: txn.Count()=%d Count()=%d, model has %d rows", cnt, tail.Count(), mc.M.Count())
			}
		}

		// second replica: everything through the serialized log, read back at the end
		replica2 := newCollectionLive(sch, mc.M.ColLive, column.Options{})
		defer replica2.Close()
		for _, st := range mc.Indexes {
			if err := mc.createIndexOn(replica2, st.Spec); err != nil {
				mc.fail(t, "CreateIndex on the log replica: %v", err)
			}
		}
		var src *commit.Log
		if logFile != "" {
			f, err := commit.OpenFile(logFile)
			if err != nil {
				mc.fail(t, "re-opening the log file: %v", err)
			}
			defer f.Close()
			src = f
		} else {
			src = commit.Open(bytes.NewReader(mem.Bytes()))
		}
		n := 0
		if err := src.Range(func(cm commit.Commit) error { n++; return replica2.Replay(cm) }); err != nil {
			mc.fail(t, "replaying the serialized log failed after %d commits: %v", n, err)
		}
		if n != replayed {
			mc.fail(t, "the serialized log holds %d commits, the channel delivered %d", n, replayed)
		}
		mc.CheckDerived(t, replica2, "replica fed through a serialized commit.Log", true)
		nt := mc.Flags["multiblock-txn"] || mc.Flags["merge"] || mc.Flags["reuse"]
		if logFile != "" {
			mc.flag("log-file")
		}
		RecordCase("C06", mc.Desc(), nt && replayed > 0, mc.Labels()...)
	})
}

// countingLogger counts what was emitted, per block.
type countingLogger struct {
	mu     sync.Mutex
	blocks map[uint32]int
	n      int
}

func (l *countingLogger) Append(c commit.Commit) error {
	l.mu.Lock()
	l.n++
	l.blocks[uint32(c.Chunk)]++
	l.mu.Unlock()
	return nil
}

// TestC06Parallel: writers of different blocks commit with real parallelism; the
// stream goes to a serialized commit.Log (memory or file). At quiescence the log
// must decode into exactly the emitted commits (framing is verified with bounds
// BEFORE anything is replayed) and a replica fed from it must equal the primary.
func TestC06Parallel(t *testing.T) {
	tmp := t.TempDir()
	rapid.Check(t, func(t *rapid.T) {
		blocks := rapid.IntRange(2, 4).Draw(t, "blocks")
		txns := rapid.IntRange(50, 400).Draw(t, "txns")
		useFile := rapid.Bool().Draw(t, "file")
		counter := &countingLogger{blocks: map[uint32]int{}}
		var mem bytes.Buffer
		var log *commit.Log
		name := filepath.Join(tmp, "par.log")
		if useFile {
			os.Remove(name)
			var err error
			if log, err = commit.OpenFile(name); err != nil {
				t.Fatal(err)
			}
		} else {
			log = commit.Open(&mem)
		}
		mk := func(w commit.Logger) *column.Collection {
			c := column.NewCollection(column.Options{Capacity: 1024, Vacuum: 24 * 3600 * 1e9, Writer: w})
			c.CreateColumn("n", column.ForInt())
			c.CreateColumn("s", column.ForString())
			return c
		}
		c := mk(multiLogger{counter, log})
		defer c.Close()
		n := (blocks-1)*16384 + 64
		c.Query(func(txn *column.Txn) error {
			for i := 0; i < n; i++ {
				txn.Insert(func(r column.Row) error { return nil })
			}
			return nil
		})
		var wg sync.WaitGroup
		for b := 0; b < blocks; b++ {
			wg.Add(1)
			go func(b int) {
				defer wg.Done()
				defer func() { recover() }()
				for i := 0; i < txns; i++ {
					row := uint32(b)<<14 + uint32(i%32)
					c.QueryAt(row, func(r column.Row) error {
						r.MergeInt("n", 1)
						r.SetString("s", fmt.Sprintf("w%d-%d", b, i))
						return nil
					})
				}
			}(b)
		}
		wg.Wait()
		if useFile {
			log.Close()
		}
		// 1. framing: the log decodes into exactly the emitted commits, with sane fields
		open := func() *commit.Log {
			if useFile {
				l, err := commit.OpenFile(name)
				if err != nil {
					t.Fatal(err)
				}
				return l
			}
			return commit.Open(bytes.NewReader(mem.Bytes()))
		}
		// 0. the decompressed stream parses as commits with sane lengths (a bounded parser of the
		// documented framing: the library's own decoder trusts length fields and can try to
		// allocate a garbage length)
		var raw []byte
		if useFile {
			raw, _ = os.ReadFile(name)
		} else {
			raw = mem.Bytes()
		}
		if msg := scanCommitStream(raw, uint32(blocks)); msg != "" {
			t.Fatalf("C06 violated (parallel writers into a serialized log, %d blocks): the log is damaged: %s", blocks, msg)
		}
		got := map[uint32]int{}
		total := 0
		src := open()
		err, bad := guarded(func() error {
			return src.Range(func(cm commit.Commit) error {
				if uint32(cm.Chunk) >= uint32(blocks) || len(cm.Updates) > 8 || cm.ID == 0 {
					return fmt.Errorf("commit #%d decoded from the log has block=%d buffers=%d id=%d: the stream is damaged", total, cm.Chunk, len(cm.Updates), cm.ID)
				}
				got[uint32(cm.Chunk)]++
				total++
				if total > counter.n+10 {
					return fmt.Errorf("the log yields more commits than the %d emitted", counter.n)
				}
				return nil
			})
		})
		if useFile {
			src.Close()
		}
		if bad != "" || err != nil {
			t.Fatalf("C06 violated (parallel writers into a serialized log, %d blocks): %s %v", blocks, bad, err)
		}
		for b, want := range counter.blocks {
			if got[b] != want {
				t.Fatalf("C06 violated (parallel writers into a serialized log): %d commits were emitted for block %d, the log holds %d", want, b, got[b])
			}
		}
		// 2. a replica fed from the log equals the primary
		replica := mk(nil)
		defer replica.Close()
		src = open()
		if rerr := src.Range(func(cm commit.Commit) error { return replica.Replay(cm) }); rerr != nil {
			t.Fatalf("C06 violated: replaying the serialized log: %v", rerr)
		}
		if useFile {
			src.Close()
		}
		dump := func(col *column.Collection) map[uint32]string {
			out := map[uint32]string{}
			col.Query(func(txn *column.Txn) error {
				nn, ss := txn.Int("n"), txn.String("s")
				return txn.Range(func(idx uint32) {
					a, okA := nn.Get()
					b, okB := ss.Get()
					out[idx] = fmt.Sprintf("%d,%v,%q,%v", a, okA, b, okB)
				})
			})
			return out
		}
		p, r := dump(c), dump(replica)
		if len(p) != len(r) || c.Count() != replica.Count() {
			t.Fatalf("C06 violated: primary has %d rows (Count %d), the replica fed from the log %d (Count %d)", len(p), c.Count(), len(r), replica.Count())
		}
		for off, v := range p {
			if r[off] != v {
				t.Fatalf("C06 violated: row %d: primary %s, replica fed from the serialized log %s", off, v, r[off])
			}
		}
		RecordCase("C06", fmt.Sprintf("parallel log: blocks=%d txns=%d file=%v commits=%d", blocks, txns, useFile, counter.n), true, "parallel-writers-serialized-log")
	})
}

// scanCommitStream walks the s2-decompressed log with the commit framing of
// Commit.WriteTo (uvarint block, uvarint id, uvarint #buffers, per buffer: string name,
// uvarint #sections, 8 bytes per section, uvarint length, bytes) and checks every field
// against generous bounds, without allocating from untrusted lengths.
func scanCommitStream(compressed []byte, blocks uint32) string {
	data, err := io.ReadAll(io.LimitReader(s2.NewReader(bytes.NewReader(compressed)), 1<<28))
	if err != nil {
		return "s2 stream: " + err.Error()
	}
	pos := 0
	uv := func() (uint64, bool) {
		v, n := binary.Uvarint(data[pos:])
		if n <= 0 {
			return 0, false
		}
		pos += n
		return v, true
	}
	for n := 0; pos < len(data); n++ {
		chunk, ok1 := uv()
		id, ok2 := uv()
		nbuf, ok3 := uv()
		if !ok1 || !ok2 || !ok3 || chunk >= uint64(blocks) || id == 0 || nbuf > 8 {
			return fmt.Sprintf("commit #%d at byte %d: block=%d id=%d buffers=%d", n, pos, chunk, id, nbuf)
		}
		for b := uint64(0); b < nbuf; b++ {
			l, ok := uv()
			if !ok || l > 16 || pos+int(l) > len(data) {
				return fmt.Sprintf("commit #%d buffer %d: column name length %d", n, b, l)
			}
			pos += int(l)
			sec, ok := uv()
			if !ok || sec > 64 || pos+int(sec)*8 > len(data) {
				return fmt.Sprintf("commit #%d buffer %d: %d sections", n, b, sec)
			}
			pos += int(sec) * 8
			blen, ok := uv()
			if !ok || blen > 1<<20 || pos+int(blen) > len(data) {
				return fmt.Sprintf("commit #%d buffer %d: payload length %d", n, b, blen)
			}
			pos += int(blen)
		}
	}
	return ""
}
