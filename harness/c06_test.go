package harness

import (
	"bytes"
	"os"
	"path/filepath"
	"testing"

	"github.com/kelindar/column"
	"github.com/kelindar/column/commit"
	"pgregory.net/rapid"
)

// ---------------------------------------------------------------------------
// C06 — a replica fed the change stream converges to the primary (sequential part)
// ---------------------------------------------------------------------------

func TestC06(t *testing.T) {
	tmp := t.TempDir()
	caseNo := 0
	rapid.Check(t, func(t *rapid.T) {
		caseNo++
		sch := genSchema(t, SchemaCfg{Key: 1, Late: true, Merges: true, EnsureLenMerge: true, MinCols: 1, MaxCols: 5})
		ch := make(commit.Channel, 64)
		// serialized log: in memory, and every 4th case through a real file
		var mem bytes.Buffer
		var logFile string
		var serial *commit.Log
		if caseNo%4 == 0 {
			logFile = filepath.Join(tmp, "c06.log")
			os.Remove(logFile)
			var err error
			if serial, err = commit.OpenFile(logFile); err != nil {
				t.Fatalf("OpenFile: %v", err)
			}
			defer serial.Close()
		} else {
			serial = commit.Open(&mem)
		}
		mc := NewMachine("C06", sch, column.Options{Writer: multiLogger{ch, serial}})
		defer mc.Close()
		defer mc.Guard(t)
		replica := newCollection(sch, column.Options{})
		defer replica.Close()
		cfg := TxnCfg{Prop: "C06", MaxSteps: 10, Rollback: true, Deletes: true, Inserts: true, Merges: true, OwnUpdates: true, KeyOps: true, Direct: true,
			NoStoreOnDel: KFActive("f11-store-and-delete-same-txn"), NoOpAfterLenMerge: KFActive("f15-difflen-merge-reorder")}
		replayed := 0
		sync := func(t *rapid.T) {
			for {
				select {
				case cm := <-ch:
					if err := replica.Replay(cm); err != nil {
						mc.fail(t, "Replay on the replica failed: %v", err)
					}
					replayed++
					continue
				default:
				}
				break
			}
		}
		syncs := 0
		t.Repeat(map[string]func(*rapid.T){
			"txn":        func(t *rapid.T) { mc.ActTxn(t, cfg); sync(t) },
			"txn2":       func(t *rapid.T) { mc.ActTxn(t, cfg); sync(t) },
			"prefill":    func(t *rapid.T) { mc.prefillAction(t); sync(t) },
			"bulkDelete": func(t *rapid.T) { mc.ActBulkDelete(t); sync(t) },
			"lateColumn": func(t *rapid.T) {
				sync(t)
				before := append([]bool{}, mc.M.ColLive...)
				mc.ActLateColumn(t)
				for i := range before {
					if !before[i] && mc.M.ColLive[i] {
						if err := replica.CreateColumn(sch.Cols[i].Name, newColumn(sch.Cols[i])); err != nil {
							mc.fail(t, "CreateColumn on the replica: %v", err)
						}
					}
				}
			},
			"createIndex": func(t *rapid.T) { sync(t); mc.ActCreateIndex(t, replica) },
			"dropIndex":   func(t *rapid.T) { sync(t); mc.ActDropIndex(t, replica) },
			"compare": func(t *rapid.T) {
				sync(t)
				if len(mc.M.Rows) > 2000 && syncs > 2 {
					t.Skip("large state compared often enough")
				}
				syncs++
				mc.logf("compare primary and replica")
				mc.CheckIndexes(t, mc.C, "primary (intermediate point)", nil)
				mc.CheckDerived(t, replica, "replica fed through commit.Channel (intermediate point)", syncs%2 == 0)
			},
		})
		sync(t)
		mc.CheckFull(t, false)
		mc.CheckIndexes(t, mc.C, "primary at the end", nil)
		mc.CheckDerived(t, replica, "replica fed through commit.Channel", false)

		// second replica: everything through the serialized log, read back at the end
		replica2 := newCollectionLive(sch, mc.M.ColLive, column.Options{})
		defer replica2.Close()
		for _, st := range mc.Indexes {
			if err := mc.createIndexOn(replica2, st.Spec); err != nil {
				mc.fail(t, "CreateIndex on the log replica: %v", err)
			}
		}
		var src *commit.Log
		if logFile != "" {
			f, err := commit.OpenFile(logFile)
			if err != nil {
				mc.fail(t, "re-opening the log file: %v", err)
			}
			defer f.Close()
			src = f
		} else {
			src = commit.Open(bytes.NewReader(mem.Bytes()))
		}
		n := 0
		if err := src.Range(func(cm commit.Commit) error { n++; return replica2.Replay(cm) }); err != nil {
			mc.fail(t, "replaying the serialized log failed after %d commits: %v", n, err)
		}
		if n != replayed {
			mc.fail(t, "the serialized log holds %d commits, the channel delivered %d", n, replayed)
		}
		mc.CheckDerived(t, replica2, "replica fed through a serialized commit.Log", true)
		nt := mc.Flags["multiblock-txn"] || mc.Flags["merge"] || mc.Flags["reuse"]
		if logFile != "" {
			mc.flag("log-file")
		}
		RecordCase("C06", mc.Desc(), nt && replayed > 0, mc.Labels()...)
	})
}
