package harness

import (
	"bytes"
	"fmt"
	"strings"
	"testing"

	"github.com/kelindar/column"
	"github.com/kelindar/column/commit"
	"pgregory.net/rapid"
)

// TestC06BigCommit: the change stream goes through a serialized commit.Log whose s2 stream has
// blocks of 1 MiB; ONE transaction stores 18..30 strings of 50 000..65 535 bytes into rows of one
// 16K block, so that its single commit is larger than a block of the stream (the decoder gets it in
// pieces). Small transactions come before and after it. A replica that reads the log back must
// hold exactly the generated values (oracle: the generated content itself).
func TestC06BigCommit(t *testing.T) {
	rapid.Check(t, func(t *rapid.T) {
		var store bytes.Buffer
		log := commit.Open(&store)
		mk := func(w commit.Logger) *column.Collection {
			opts := column.Options{Capacity: 64, Vacuum: 24 * 3600 * 1e9}
			if w != nil {
				opts.Writer = w
			}
			c := column.NewCollection(opts)
			c.CreateColumn("s", column.ForString())
			c.CreateColumn("n", column.ForInt())
			return c
		}
		primary := mk(log)
		defer primary.Close()
		rows := rapid.IntRange(30, 60).Draw(t, "rows")
		want := map[uint32][2]string{}
		small := func(tag string) {
			primary.Query(func(txn *column.Txn) error {
				for i := 0; i < 3; i++ {
					off := uint32(rapid.IntRange(0, rows-1).Draw(t, tag+"-row"))
					v := fmt.Sprintf("%s%d", tag, i)
					txn.QueryAt(off, func(r column.Row) error { r.SetString("s", v); r.MergeInt("n", 1); return nil })
					w := want[off]
					var n int
					fmt.Sscan(w[1], &n)
					want[off] = [2]string{v, fmt.Sprint(n + 1)}
				}
				return nil
			})
		}
		primary.Query(func(txn *column.Txn) error {
			for i := 0; i < rows; i++ {
				off, _ := txn.Insert(func(r column.Row) error { r.SetString("s", "init"); r.SetInt("n", i); return nil })
				want[off] = [2]string{"init", fmt.Sprint(i)}
			}
			return nil
		})
		small("before")
		big := rapid.IntRange(18, 30).Draw(t, "big-rows")
		width := rapid.SampledFrom([]int{50000, 60000, 65535}).Draw(t, "width")
		total := 0
		primary.Query(func(txn *column.Txn) error {
			for i := 0; i < big; i++ {
				off := uint32(i)
				v := strings.Repeat(string(rune('a'+i%26)), width-i)
				total += len(v)
				txn.QueryAt(off, func(r column.Row) error { r.SetString("s", v); return nil })
				want[off] = [2]string{v, want[off][1]}
			}
			return nil
		})
		small("after")
		replica := mk(nil)
		defer replica.Close()
		n := 0
		err := commit.Open(deliver(store.Bytes(), rows)).Range(func(cm commit.Commit) error {
			n++
			return replica.Replay(cm)
		})
		if err != nil {
			t.Fatalf("C06 violated: reading the serialized log back failed after %d commits: %v (one commit carries %d bytes of strings for one block)", n, err, total)
		}
		if replica.Count() != len(want) {
			t.Fatalf("C06 violated: the replica fed from the serialized log has %d rows, the primary %d", replica.Count(), len(want))
		}
		msg := ""
		replica.Query(func(txn *column.Txn) error {
			s, num := txn.String("s"), txn.Int("n")
			return txn.Range(func(off uint32) {
				v, _ := s.Get()
				k, _ := num.Get()
				if w := want[off]; msg == "" && (v != w[0] || fmt.Sprint(k) != w[1]) {
					msg = fmt.Sprintf("row %d: replica holds s of %d bytes (%.12q...) n=%d, the primary s of %d bytes (%.12q...) n=%s", off, len(v), v, k, len(w[0]), w[0], w[1])
				}
			})
		})
		if msg != "" {
			t.Fatalf("C06 violated: replica fed from the serialized log: %s", msg)
		}
		RecordCase("C06", fmt.Sprintf("big commit: %d rows x ~%d bytes = %d bytes in one commit, %d commits in the log", big, width, total, n), total > 1<<20, "commit-larger-than-a-stream-block")
	})
}
