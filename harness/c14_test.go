package harness

import (
	"bytes"
	"fmt"
	"strings"
	"testing"
	"time"

	"github.com/kelindar/column"
	"pgregory.net/rapid"
)

// ---------------------------------------------------------------------------
// C14 — a failed snapshot reports the error and leaves the collection usable
// ---------------------------------------------------------------------------

// installTail installs a hook that runs generated transactions synchronously at
// the given snapshot yield points (so that the snapshot has a log tail). The
// transactions are drawn when they run, against the model state of that moment.
// It returns the function that removes the hook.
func (mc *Machine) installTail(t *rapid.T, plan map[string]int, cfg TxnCfg, onTxn func(point string, eff *TxnEffect, committed bool)) func() {
	busy := false
	column.SetVerifHook(func(point string, block uint32) {
		if busy {
			return
		}
		key := point
		if point == "snapshot:pre-chunk" {
			key = fmt.Sprintf("%s:%d", point, block)
		}
		if mc.OverlapAt != "" && key == mc.OverlapAt {
			// a second Snapshot call that overlaps the one in progress (issued from the snapshotting
			// goroutine itself at a yield point, where no lock is held)
			mc.OverlapAt = ""
			busy = true
			mc.OverlapRan = true
			mc.OverlapBuf.Reset()
			mc.OverlapRows = len(mc.M.Rows)
			mc.OverlapErr = mc.C.Snapshot(&mc.OverlapBuf)
			busy = false
		}
		if mc.BigTailAt != "" && key == mc.BigTailAt && mc.BigTail != nil {
			mc.BigTailAt = ""
			busy = true
			mc.BigTail()
			busy = false
		}
		n := plan[key]
		if n == 0 {
			return
		}
		delete(plan, key)
		busy = true
		defer func() { busy = false }()
		for i := 0; i < n; i++ {
			mc.logf("  [during snapshot at %s]", key)
			spec := genTxn(t, mc.M, mc.Recent, cfg)
			eff, committed := mc.RunTxn(t, spec, false)
			if onTxn != nil {
				onTxn(key, eff, committed)
			}
		}
	})
	return func() { column.SetVerifHook(nil) }
}

func TestC14(t *testing.T) {
	rapid.Check(t, func(t *rapid.T) {
		sch := genSchema(t, SchemaCfg{Key: 1, MinCols: 1, MaxCols: 3, Capacities: []int{1, 1024, 16385}})
		mc := NewMachine("C14", sch, column.Options{})
		defer mc.Close()
		defer mc.Guard(t)
		defer column.SetVerifHook(nil)
		cfg := TxnCfg{Prop: "C14", MaxSteps: 5, Deletes: true, Inserts: true, Merges: true, NoStoreOnDel: KFActive("f11-store-and-delete-same-txn"), NoOpAfterLenMerge: KFActive("f15-difflen-merge-reorder")}
		// layout: empty, one block, several blocks
		layout := rapid.IntRange(0, 6).Draw(t, "layout")
		for _, cs := range sch.Cols {
			if cs.Kind == KString && cs.Merge == MDefault && !cs.Late && rapid.IntRange(0, 2).Draw(t, "prefer-large-layout") == 0 {
				layout = 6 // a plain string column: the large layout can get log tails of more than 1 MiB
				break
			}
		}
		switch layout {
		case 6:
			// a large state (> 1 MiB, so that the s2 encoder hands blocks to the destination while
			// chunk latches are still held inside writeState)
			mc.ActPrefill(t, 33000, storableCols(mc.M, TxnCfg{}), rapid.Uint64().Draw(t, "seed"))
			big := []int{}
			for i, cs := range sch.Cols {
				if cs.Kind == KString && mc.M.ColLive[i] {
					big = append(big, i)
				}
			}
			mc.logf("large layout: %d rows", len(mc.M.Rows))
			// fatten every row with a 40-byte string through a bulk transaction when a string column exists
			if len(big) > 0 {
				val := Value{S: strings.Repeat("F", 40)}
				mc.C.Query(func(txn *column.Txn) error {
					for _, off := range mc.M.Live() {
						txn.QueryAt(off, func(r column.Row) error { r.SetString(sch.Cols[big[0]].Name, val.S); return nil })
					}
					return nil
				})
				for _, off := range mc.M.Live() {
					mc.M.Rows[off][big[0]] = Cell{Has: true, V: val}
				}
			}
		case 0:
		case 1:
			mc.ActPrefill(t, 16390, storableCols(mc.M, TxnCfg{})[:1], rapid.Uint64().Draw(t, "seed"))
		case 2:
			mc.ActPrefill(t, 33000, nil, 1)
			mc.ActBulkDelete(t)
		default:
			mc.ActPrefill(t, rapid.IntRange(1, 120).Draw(t, "n"), storableCols(mc.M, TxnCfg{}), rapid.Uint64().Draw(t, "seed"))
		}
		// large layout with a string column: some snapshots get a log tail of more than 1 MiB (one bulk
		// transaction that re-writes the string of every row while the snapshot is in progress)
		bigCol, bigRound := -1, 0
		if len(mc.M.Rows) > 30000 {
			for i, cs := range sch.Cols {
				if cs.Kind == KString && cs.Merge == MDefault && mc.M.ColLive[i] {
					bigCol = i
				}
			}
		}
		armBigTail := func(t *rapid.T) string {
			mc.BigTailAt, mc.BigTail = "", nil
			if bigCol < 0 || rapid.IntRange(0, 3).Draw(t, "big-tail") != 0 {
				return ""
			}
			mc.BigTailAt = rapid.SampledFrom([]string{"snapshot:pre-chunk:1", "snapshot:pre-chunk:2", "snapshot:pre-close"}).Draw(t, "big-tail-at")
			mc.BigTail = func() {
				bigRound++
				val := Value{S: strings.Repeat(string(rune('a'+bigRound%26)), 40)}
				name := sch.Cols[bigCol].Name
				mc.logf("  [during snapshot at %s: bulk transaction re-writing %s of all %d rows]", mc.BigTailAt, name, len(mc.M.Rows))
				live := mc.M.Live()
				mc.C.Query(func(txn *column.Txn) error {
					for _, off := range live {
						txn.QueryAt(off, func(r column.Row) error { r.SetString(name, val.S); return nil })
					}
					return nil
				})
				for _, off := range live {
					mc.M.Rows[off][bigCol] = Cell{Has: true, V: val}
				}
				mc.flag("log-tail-over-1MiB")
			}
			return " + a bulk transaction of >1 MiB at " + mc.BigTailAt
		}
		fds0, files0 := tempLogState()
		leakCheck := func(what string) {
			fds, files := tempLogState()
			if len(fds) != len(fds0) {
				mc.fail(t, "%s: %d open descriptors point at column_*.log temp files (before: %d): %v", what, len(fds), len(fds0), fds)
			}
			if len(files) != len(files0) {
				mc.fail(t, "%s: %d column_*.log temp files in TMPDIR (before: %d): %v", what, len(files), len(files0), files)
			}
		}
		withTail := rapid.Bool().Draw(t, "with-log-tail")
		mkPlan := func(t *rapid.T) map[string]int {
			if !withTail {
				return nil
			}
			plan := map[string]int{}
			for _, p := range []string{"snapshot:recorder-open", "snapshot:pre-chunk:0", "snapshot:pre-chunk:1", "snapshot:pre-close"} {
				if rapid.Bool().Draw(t, "tail-at-"+p) {
					plan[p] = 1
				}
			}
			return plan
		}
		// healthy probe: how many write calls / bytes does a snapshot of this collection take?
		probe := &faultWriter{FailCall: -1, Budget: -1}
		if err := mc.C.Snapshot(probe); err != nil {
			mc.fail(t, "Snapshot to a healthy writer failed: %v", err)
		}
		leakCheck("after a successful snapshot")
		mc.logf("healthy snapshot: %d write calls, %d bytes", probe.Calls, probe.Bytes)
		{
			// ... and restores, also when the collection holds no rows at all
			first := snapshotBytes(mc)
			rc := newCollectionLive(sch, mc.M.ColLive, column.Options{})
			if err := rc.Restore(bytes.NewReader(first)); err != nil {
				rc.Close()
				mc.fail(t, "Restore of a healthy snapshot (%d bytes, %d rows) failed: %v", len(first), len(mc.M.Rows), err)
			}
			mc.CheckDerived(t, rc, "first healthy snapshot, restored", false)
			rc.Close()
			if len(mc.M.Rows) == 0 {
				mc.flag("snapshot-of-an-empty-collection")
			}
		}

		// the fault plans of this case: every write call index, byte budgets (all when small), once/forever
		var plans []*faultWriter
		for k := 0; k <= probe.Calls; k++ {
			plans = append(plans, &faultWriter{FailCall: k, Budget: -1})
			plans = append(plans, &faultWriter{FailCall: k, Budget: -1, Once: true})
		}
		var budgets []int
		if probe.Bytes <= 600 || thorough() && probe.Bytes <= 6000 {
			for n := 0; n <= probe.Bytes; n++ {
				budgets = append(budgets, n)
			}
		} else {
			frames, _ := s2Frames(snapshotBytes(mc))
			seen := map[int]bool{}
			add := func(n int) {
				if n >= 0 && n <= probe.Bytes && !seen[n] {
					seen[n] = true
					budgets = append(budgets, n)
				}
			}
			for _, f := range frames {
				for d := -2; d <= 2; d++ {
					add(f + d)
				}
			}
			add(0)
			add(probe.Bytes - 1)
			add(probe.Bytes)
			for i := 0; i < 40; i++ {
				add(rapid.IntRange(0, probe.Bytes).Draw(t, "budget"))
			}
		}
		for _, n := range budgets {
			plans = append(plans, &faultWriter{FailCall: -1, Budget: n})
		}
		for i, fw := range plans {
			fw.Err = faultErrors[i%len(faultErrors)]
		}
		// run them in a drawn order, with transactions and healthy snapshots in between
		order := rapid.Permutation(indexRange(len(plans))).Draw(t, "order")
		limit := len(order)
		if !thorough() && limit > 120 {
			limit = 120
		}
		consecutive := 0
		for pi := 0; pi < limit; pi++ {
			mc.beat()
			fw := plans[order[pi]]
			planDesc := fw.String()
			mc.OverlapAt, mc.OverlapRan = "", false
			if rapid.IntRange(0, 3).Draw(t, "overlapping-snapshot") == 0 {
				mc.OverlapAt = rapid.SampledFrom([]string{"snapshot:recorder-open", "snapshot:pre-chunk:0", "snapshot:pre-chunk:1", "snapshot:pre-close", "snapshot:pre-copy"}).Draw(t, "overlap-at")
				planDesc += " + a second Snapshot call at " + mc.OverlapAt
			}
			planDesc += armBigTail(t)
			remove := mc.installTail(t, mkPlan(t), cfg, nil)
			err := mc.C.Snapshot(fw)
			remove()
			mc.BigTailAt, mc.BigTail = "", nil
			what := fmt.Sprintf("Snapshot with plan %q (%d calls, %d bytes accepted, %d failed)", planDesc, fw.Calls, fw.Bytes, fw.Failed)
			if mc.OverlapRan {
				// refused ("another one might be in progress") or successful - either way it must not leave
				// anything behind (leakCheck below), and a successful one must be restorable
				mc.flag("overlapping-snapshot")
				if mc.OverlapErr == nil {
					rc := newCollectionLive(sch, mc.M.ColLive, column.Options{})
					rerr := rc.Restore(bytes.NewReader(mc.OverlapBuf.Bytes()))
					cnt := rc.Count()
					rc.Close()
					if rerr != nil {
						mc.fail(t, "%s: the overlapping Snapshot call returned nil but its output does not restore: %v", what, rerr)
					}
					if cnt != mc.OverlapRows {
						mc.fail(t, "%s: the overlapping Snapshot call returned nil; restored it holds %d rows, the collection had %d", what, cnt, mc.OverlapRows)
					}
				}
			}
			if fw.Failed > 0 && err == nil {
				mc.fail(t, "%s: the writer failed but Snapshot returned nil", what)
			}
			if fw.Failed == 0 && err != nil {
				mc.fail(t, "%s: the writer never failed but Snapshot returned %v", what, err)
			}
			leakCheck(what)
			// the collection keeps working: a write transaction on EVERY populated block completes
			// (a latch left locked by an error path would block it forever)
			if msg := livenessProbe(mc); msg != "" {
				mc.fail(t, "%s: %s", what, msg)
			}
			consecutive++
			// the collection keeps working: a transaction commits and matches the model
			if pi%3 == 0 {
				mc.ActTxn(t, cfg)
			}
			nontrivial := false
			if pi%5 == 4 || pi == limit-1 {
				// a later snapshot to a healthy writer succeeds and restores correctly
				mc.CheckFull(t, pi%2 == 1)
				var buf bytes.Buffer
				tailDesc := armBigTail(t)
				removeTail := mc.installTail(t, nil, cfg, nil)
				err := mc.C.Snapshot(&buf)
				removeTail()
				mc.BigTailAt, mc.BigTail = "", nil
				if err != nil {
					mc.fail(t, "after %d failing snapshots (last: %s): Snapshot to a healthy writer%s failed: %v", consecutive, planDesc, tailDesc, err)
				}
				leakCheck("healthy snapshot after failures")
				rc := newCollectionLive(sch, mc.M.ColLive, column.Options{})
				if err := rc.Restore(bytes.NewReader(buf.Bytes())); err != nil {
					rc.Close()
					mc.fail(t, "after failing snapshots: Restore of a healthy snapshot failed: %v", err)
				}
				mc.CheckDerived(t, rc, "snapshot taken after failed snapshots, restored", pi%2 == 0)
				rc.Close()
				consecutive = 0
				nontrivial = fw.Failed > 0 && (fw.Calls > 1 || fw.Bytes > 0)
			}
			RecordCase("C14", fmt.Sprintf("%s\nplan: %s (tail=%v)", mc.Trace[0]+" rows="+fmt.Sprint(len(mc.M.Rows)), planDesc, withTail), nontrivial,
				map[bool]string{true: "writer-failed", false: "writer-healthy"}[fw.Failed > 0], map[bool]string{true: "with-log-tail", false: "no-log-tail"}[withTail], map[bool]string{true: "log-tail-over-1MiB-seen", false: "small-tails-only"}[mc.Flags["log-tail-over-1MiB"]])
		}
		mc.CheckFull(t, false)
	})
}

func indexRange(n int) []int {
	out := make([]int, n)
	for i := range out {
		out[i] = i
	}
	return out
}

func snapshotBytes(mc *Machine) []byte {
	var buf bytes.Buffer
	mc.C.Snapshot(&buf)
	return buf.Bytes()
}

// livenessProbe commits a state-preserving write (re-put of the value a row
// already holds in "expire", or a put of 0 followed by nothing else when absent
// is avoided) on one live row of every populated block, under a timeout.
func livenessProbe(mc *Machine) string {
	type target struct {
		off uint32
		v   int64
	}
	var targets []target
	seen := map[uint32]bool{}
	for _, off := range mc.M.Live() {
		if seen[off>>14] {
			continue
		}
		if c := mc.M.Rows[off][0]; c.Has {
			seen[off>>14] = true
			targets = append(targets, target{off, int64(c.V.B)})
		}
	}
	if len(targets) == 0 {
		return ""
	}
	done := make(chan struct{})
	go func() {
		defer close(done)
		defer func() { recover() }()
		mc.C.Query(func(txn *column.Txn) error {
			for _, tg := range targets {
				txn.QueryAt(tg.off, func(r column.Row) error { r.SetInt64("expire", tg.v); return nil })
			}
			return nil
		})
	}()
	select {
	case <-done:
		return ""
	case <-after(20 * time.Second):
		return fmt.Sprintf("the collection is not usable any more: a transaction writing to %d block(s) did not complete within 20 s (a lock is still held)", len(targets))
	}
}
