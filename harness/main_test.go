package harness

import (
	"flag"
	"os"
	"strconv"
	"strings"
	"testing"
)

// envInt reads an integer knob set by the driver (run.py).
func envInt(name string, def int) int {
	if v := os.Getenv(name); v != "" {
		if n, err := strconv.Atoi(v); err == nil {
			return n
		}
	}
	return def
}

func thorough() bool { return os.Getenv("VERIF_TIER") == "thorough" }

func TestMain(m *testing.M) {
	flag.Parse()
	code := m.Run()
	if p := os.Getenv("VERIF_STATS"); p != "" {
		writeStats(p)
	}
	os.Exit(code)
}

// TestKF runs the reproductions of all registered known findings of one property
// (VERIF_KF_PROP) and records their status in the stats file; it never fails:
// the driver decides what a failing reproduction means (listed finding =>
// KNOWN-FINDING line; fixed entry or unlisted => violation).
func TestKF(t *testing.T) {
	prop := os.Getenv("VERIF_KF_PROP")
	for slug, e := range kfReg {
		if prop != "" && !hasProp(e.prop, prop) {
			continue
		}
		e.run()
		t.Logf("known-finding repro %s: failed=%v %s", slug, e.failed, e.detail)
	}
}

func hasProp(list, prop string) bool {
	for _, p := range strings.Split(list, ",") {
		if p == prop {
			return true
		}
	}
	return false
}

// TestKFReplay re-runs the reproduction named in a replay file written by the
// driver when a reproduction that is not a listed finding fails.
func TestKFReplay(t *testing.T) {
	var rp struct {
		Slug string `json:"slug"`
	}
	if !loadReplay(t, &rp) {
		t.Skip("no replay file")
	}
	e, ok := kfReg[rp.Slug]
	if !ok {
		t.Fatalf("unknown reproduction %q", rp.Slug)
	}
	e.run()
	if e.failed {
		t.Fatalf("reproduction %s fails: %s", rp.Slug, e.detail)
	}
}
