package harness

import (
	"bytes"
	"fmt"
	"sort"
	"strings"
	"sync"

	"github.com/kelindar/column"
	"github.com/kelindar/column/commit"
	"pgregory.net/rapid"
)

// ---------------------------------------------------------------------------
// Concurrent programs for the controlled-schedule checks (C06 C08 C09 C15):
// a fixed schema, an initial state spread over several blocks, and tasks that
// run transactions built from the ordinary Step/Store vocabulary.
//
// Domain rules that keep the oracle schedule-independent and sound:
//   - shared rows are only updated (puts/merges), never deleted;
//   - a row is deleted by at most one task, and nobody else touches it;
//   - inserted rows stay private to the inserting transaction.
// ---------------------------------------------------------------------------

const (
	ccA = 1 // int, additive merge
	ccM = 2 // int, order-sensitive merge (v*3+d)
	ccS = 3 // string, order-sensitive same-length merge
	ccT = 4 // uint64 tag
	ccX = 5 // string, commutative max merge that returns its argument as is
)

func concSchema(capacity int) *Schema {
	return &Schema{Capacity: capacity, Key: -1, Cols: []ColSpec{
		{Name: "expire", Kind: KInt64},
		{Name: "a", Kind: KInt},
		{Name: "m", Kind: KInt, Merge: MMulAdd},
		{Name: "s", Kind: KString, Merge: MMix},
		{Name: "t", Kind: KUint64},
		{Name: "x", Kind: KString, Merge: MMax},
	}}
}

// concInit is an initial state captured as snapshot bytes + model.
type concInit struct {
	Sch    *Schema
	Snap   []byte
	M      *Model
	Shared []uint32   // rows every task may update
	Owned  [][]uint32 // Owned[task] = rows only that task may delete
	Blocks int
}

var concInitCache = map[string]*concInit{}

// buildConcInit creates (once per process and shape) an initial state with rows
// in `blocks` blocks: a few shared rows per block around word/block boundaries
// and a few privately owned rows per task.
func buildConcInit(blocks, tasks int) *concInit {
	key := fmt.Sprintf("%d/%d", blocks, tasks)
	if ci, ok := concInitCache[key]; ok {
		return ci
	}
	sch := concSchema(1024)
	c := newCollection(sch, column.Options{})
	defer c.Close()
	m := NewModel(sch)
	n := (blocks-1)*16384 + 200
	var offs []uint32
	c.Query(func(txn *column.Txn) error {
		for i := 0; i < n; i++ {
			off, _ := txn.Insert(func(r column.Row) error {
				r.SetInt("a", i%7)
				r.SetInt("m", i%5)
				r.SetString("s", fmt.Sprintf("s%d", i%3))
				return nil
			})
			offs = append(offs, off)
		}
		return nil
	})
	keep := map[uint32]bool{}
	ci := &concInit{Sch: sch, Blocks: blocks, Owned: make([][]uint32, tasks)}
	for b := 0; b < blocks; b++ {
		base := uint32(b) << 14
		for _, d := range []uint32{0, 1, 63, 64, 130} {
			ci.Shared = append(ci.Shared, base+d)
			keep[base+d] = true
		}
		for t := 0; t < tasks; t++ {
			for k := uint32(0); k < 2; k++ {
				off := base + 140 + uint32(t)*4 + k
				ci.Owned[t] = append(ci.Owned[t], off)
				keep[off] = true
			}
		}
	}
	c.Query(func(txn *column.Txn) error {
		for _, off := range offs {
			if !keep[off] {
				txn.DeleteAt(off)
			}
		}
		return nil
	})
	for i, off := range offs {
		if keep[off] {
			row := make(MRow, len(sch.Cols))
			row[ccA] = Cell{Has: true, V: Value{B: uint64(i % 7)}}
			row[ccM] = Cell{Has: true, V: Value{B: uint64(i % 5)}}
			row[ccS] = Cell{Has: true, V: Value{S: fmt.Sprintf("s%d", i%3)}}
			m.Rows[off] = row
		}
	}
	m.dirty()
	var buf bytes.Buffer
	if err := c.Snapshot(&buf); err != nil {
		panic(err)
	}
	ci.Snap = buf.Bytes()
	ci.M = m
	concInitCache[key] = ci
	return ci
}

// concProgram: Tasks[i] is the list of transactions task i runs, in order.
type concProgram struct {
	Init  *concInit
	Tasks [][]TxnSpec
	Yield [][][]bool // Yield[task][txn][step]: yield inside the body before this step
}

func (p *concProgram) String() string {
	var b strings.Builder
	for i, txns := range p.Tasks {
		fmt.Fprintf(&b, "task %d:", i)
		for _, tx := range txns {
			fmt.Fprintf(&b, " %s;", p.Init.Sch.renderTxn(tx))
		}
		b.WriteString("\n")
	}
	return b.String()
}

type concGenCfg struct {
	Tasks     int
	MinTxns   int // 0 = 1
	MaxTxns   int
	Deletes   bool
	Inserts   bool
	Puts      bool
	OnlyMerge bool
	OneBlock  bool // every transaction stays inside one block
	Aborts    bool // one transaction in six returns an error after its last step (rolls back)
	// AbortHeavy: every second transaction rolls back and most steps are inserts - many rollbacks
	// that release reserved offsets (often of one fill-list word) overlap each other and commits
	AbortHeavy bool
}

func genConcStore(t *rapid.T, cfg concGenCfg, task, seq int) Store {
	col := rapid.SampledFrom([]int{ccA, ccA, ccM, ccS, ccX}).Draw(t, "col")
	st := Store{Col: col, Merge: true}
	if cfg.Puts && !cfg.OnlyMerge && rapid.IntRange(0, 3).Draw(t, "put") == 0 {
		st.Merge = false
	}
	switch col {
	case ccX:
		st.Merge = true
		st.Val = Value{S: fmt.Sprintf("%c%02d", 'a'+seq%5, seq%100)}
	case ccS:
		st.Val = Value{S: fmt.Sprintf("%c%d", 'a'+task, seq%10)}
	default:
		st.Val = Value{B: uint64(int64(rapid.IntRange(-3, 9).Draw(t, "d")))}
	}
	if rapid.IntRange(0, 3).Draw(t, "via-accessor") == 0 {
		st.Via = ViaTxn // txn.X(col).Set/Merge at the cursor instead of the Row setter
	}
	return st
}

func genConcProgram(t *rapid.T, init *concInit, cfg concGenCfg) *concProgram {
	p := &concProgram{Init: init}
	ownedLeft := make([][]uint32, cfg.Tasks)
	for i := range ownedLeft {
		ownedLeft[i] = append([]uint32{}, init.Owned[i]...)
	}
	seq := 0
	for task := 0; task < cfg.Tasks; task++ {
		ntx := rapid.IntRange(max(1, cfg.MinTxns), cfg.MaxTxns).Draw(t, "ntxns")
		var txns []TxnSpec
		var yields [][]bool
		for k := 0; k < ntx; k++ {
			spec := TxnSpec{FailAt: -1}
			nsteps := rapid.IntRange(1, 4).Draw(t, "nsteps")
			block := uint32(rapid.IntRange(0, init.Blocks-1).Draw(t, "home-block"))
			var ys []bool
			for s := 0; s < nsteps; s++ {
				seq++
				kind := rapid.IntRange(0, 9).Draw(t, "kind")
				switch {
				case kind == 0 && cfg.Deletes && len(ownedLeft[task]) > 0:
					i := rapid.IntRange(0, len(ownedLeft[task])-1).Draw(t, "own")
					row := ownedLeft[task][i]
					if cfg.OneBlock && row>>14 != block {
						continue
					}
					ownedLeft[task] = append(ownedLeft[task][:i], ownedLeft[task][i+1:]...)
					spec.Steps = append(spec.Steps, Step{Kind: SDelete, Row: row})
				case (kind == 1 || cfg.AbortHeavy && kind <= 6) && cfg.Inserts:
					st := Step{Kind: SInsert, Stores: []Store{{Col: ccT, Val: Value{B: uint64(task+1)<<32 | uint64(seq)}}}}
					if rapid.Bool().Draw(t, "ins-store") {
						st.Stores = append(st.Stores, genConcStore(t, cfg, task, seq))
					}
					spec.Steps = append(spec.Steps, st)
				default:
					var cands []uint32
					for _, r := range init.Shared {
						if !cfg.OneBlock || r>>14 == block {
							cands = append(cands, r)
						}
					}
					row := cands[rapid.IntRange(0, len(cands)-1).Draw(t, "row")]
					st := Step{Kind: SUpdate, Row: row}
					for n := rapid.IntRange(1, 2).Draw(t, "nst"); n > 0; n-- {
						st.Stores = append(st.Stores, genConcStore(t, cfg, task, seq))
					}
					spec.Steps = append(spec.Steps, st)
				}
				ys = append(ys, rapid.IntRange(0, 3).Draw(t, "body-yield") == 0)
			}
			if len(spec.Steps) == 0 {
				spec.Steps = append(spec.Steps, Step{Kind: SUpdate, Row: init.Shared[0], Stores: []Store{{Col: ccA, Merge: true, Val: Value{B: 1}}}})
				ys = []bool{false}
			}
			if cfg.Aborts && rapid.IntRange(0, map[bool]int{false: 5, true: 1}[cfg.AbortHeavy]).Draw(t, "abort") == 0 {
				spec.FailAt = len(spec.Steps) - 1 // rolled back: nothing of it may apply, be emitted or stay reserved
			}
			if spec.FailAt < 0 && rapid.IntRange(0, 3).Draw(t, "tail-accessor") == 0 {
				// the body ends by obtaining a column accessor that it only reads: an update buffer that stays empty
				spec.Touch = []int{rapid.SampledFrom([]int{ccA, ccM, ccS, ccX}).Draw(t, "tail-accessor-col")}
			}
			txns = append(txns, spec)
			yields = append(yields, ys[:len(spec.Steps)])
		}
		p.Tasks = append(p.Tasks, txns)
		p.Yield = append(p.Yield, yields)
	}
	return p
}

// concRun is one execution of a program under a schedule.
type concRun struct {
	P       *concProgram
	C       *column.Collection
	Log     *recLogger
	S       *Sched
	Res     [][][]StepResult // [task][txn][step]
	Ack     [][]int          // logical time at which the transaction returned
	Begin   [][]int          // logical time at which the transaction started
	N0      int              // commits recorded while the initial state was restored
	Clocks  []int            // logical time of each recorded commit (index = Seq - N0)
	Extra   map[string]any
	BodyErr string
	errMu   sync.Mutex
	ok      bool
}

func (r *concRun) Close() { r.C.Close() }

// startConcRun builds the collection, restores the initial state and registers the writer tasks.
func startConcRun(p *concProgram, capacity int) *concRun {
	sch := *p.Init.Sch
	sch.Capacity = capacity
	r := &concRun{P: p, S: NewSched(), Extra: map[string]any{}}
	r.Log = &recLogger{}
	r.Log.who = r.S.CurrentTask
	r.Log.onAppend = func() { r.Clocks = append(r.Clocks, r.S.Tick()) }
	r.C = newCollection(&sch, column.Options{Writer: r.Log})
	if err := r.C.Restore(bytes.NewReader(p.Init.Snap)); err != nil {
		panic(err)
	}
	r.N0 = r.Log.Len()
	r.Clocks = nil
	r.Res = make([][][]StepResult, len(p.Tasks))
	r.Ack = make([][]int, len(p.Tasks))
	r.Begin = make([][]int, len(p.Tasks))
	for ti := range p.Tasks {
		ti := ti
		r.Res[ti] = make([][]StepResult, len(p.Tasks[ti]))
		r.Ack[ti] = make([]int, len(p.Tasks[ti]))
		r.Begin[ti] = make([]int, len(p.Tasks[ti]))
		r.S.Add(fmt.Sprintf("writer%d", ti), func() {
			for k, spec := range p.Tasks[ti] {
				r.Begin[ti][k] = r.S.Tick()
				ys := p.Yield[ti][k]
				res, err := execTxnObs(r.C, p.Init.Sch, nil, spec, func(i int, txn *column.Txn, res []StepResult) {
					if i+1 < len(ys) && ys[i+1] {
						r.S.Yield("body", 0)
					}
				})
				if (err != nil) != (spec.FailAt >= 0) {
					r.errMu.Lock()
					r.BodyErr = fmt.Sprintf("task %d txn %d: Query returned %v for a body that returned error=%v", ti, k, err, spec.FailAt >= 0)
					r.errMu.Unlock()
				}
				r.Res[ti][k] = res
				r.Ack[ti][k] = r.S.Tick()
			}
		})
	}
	return r
}

// txnBlocks returns the blocks a transaction changed (ascending).
func txnBlocks(spec TxnSpec, res []StepResult) []uint32 {
	if spec.FailAt >= 0 {
		return nil // rolled back
	}
	set := map[uint32]bool{}
	for i, st := range spec.Steps {
		switch st.Kind {
		case SUpdate:
			if len(st.Stores) > 0 {
				set[st.Row>>14] = true
			}
		case SDelete:
			if res[i].Deleted {
				set[st.Row>>14] = true
			}
		case SInsert:
			if res[i].Ran {
				set[res[i].Offset>>14] = true
			}
		}
	}
	out := make([]uint32, 0, len(set))
	for b := range set {
		out = append(out, b)
	}
	sort.Slice(out, func(i, j int) bool { return out[i] < out[j] })
	return out
}

// applyPart applies the part of a transaction that lies in one block to a model.
func applyPart(m *Model, spec TxnSpec, res []StepResult, block uint32) error {
	var deleted []uint32
	for i, st := range spec.Steps {
		switch st.Kind {
		case SInsert:
			if !res[i].Ran || res[i].Offset>>14 != block {
				continue
			}
			if _, live := m.Rows[res[i].Offset]; live {
				return fmt.Errorf("an insert was given offset %d, which holds a live row when its commit is applied", res[i].Offset)
			}
			m.Rows[res[i].Offset] = make(MRow, len(m.Sch.Cols))
		}
	}
	for i, st := range spec.Steps {
		var row uint32
		switch st.Kind {
		case SUpdate:
			row = st.Row
		case SInsert:
			if !res[i].Ran {
				continue
			}
			row = res[i].Offset
		case SDelete:
			if res[i].Deleted && st.Row>>14 == block {
				deleted = append(deleted, st.Row)
			}
			continue
		default:
			continue
		}
		if row>>14 != block {
			continue
		}
		r, ok := m.Rows[row]
		if !ok {
			continue
		}
		for _, s := range st.Stores {
			m.applyStore(r, s)
		}
	}
	for _, off := range deleted {
		delete(m.Rows, off)
	}
	m.dirty()
	return nil
}

// partRef identifies the block-part of a transaction a recorded commit belongs to.
type partRef struct {
	Task, Txn int
	Block     uint32
}

// attribute maps every recorded commit (after N0) to the transaction part that
// emitted it; it also enforces "exactly one commit per changed block, nothing
// else" and returns a description of the first mismatch.
func (r *concRun) attribute() ([]partRef, string) {
	recs := r.Log.Since(r.N0)
	perTask := map[int][]recCommit{}
	for _, rc := range recs {
		perTask[rc.Task] = append(perTask[rc.Task], rc)
	}
	refs := make([]partRef, len(recs))
	for ti, txns := range r.P.Tasks {
		mine := perTask[ti]
		pos := 0
		for k, spec := range txns {
			if r.Res[ti][k] == nil {
				continue
			}
			for _, b := range txnBlocks(spec, r.Res[ti][k]) {
				if pos >= len(mine) {
					return nil, fmt.Sprintf("task %d txn %d changed block %d but no commit was emitted for it", ti, k, b)
				}
				if uint32(mine[pos].Chunk) != b {
					return nil, fmt.Sprintf("task %d txn %d: expected a commit for block %d, the stream has one for block %d", ti, k, b, mine[pos].Chunk)
				}
				refs[mine[pos].Seq-r.N0] = partRef{ti, k, b}
				pos++
			}
		}
		if pos != len(mine) {
			return nil, fmt.Sprintf("task %d emitted %d commit(s) more than the blocks its transactions changed", ti, len(mine)-pos)
		}
		delete(perTask, ti)
	}
	for who, rest := range perTask {
		if len(rest) > 0 {
			return nil, fmt.Sprintf("%d commit(s) were emitted from a goroutine that is not a writer task (task id %d)", len(rest), who)
		}
	}
	return refs, ""
}

// decodedOp is one operation read from a recorded commit.
type decodedOp struct {
	Col  string
	Off  uint32
	Type commit.OpType
	Int  int64
	Str  string
}

func decodeCommitOps(rc recCommit) []decodedOp {
	var out []decodedOp
	rd := commit.NewReader()
	for _, buf := range rc.Clone.Updates {
		rd.Range(buf, rc.Chunk, func(r *commit.Reader) {
			for r.Next() {
				op := decodedOp{Col: buf.Column, Off: r.Index(), Type: r.Type}
				switch buf.Column {
				case "a", "m", "t", "expire":
					if len(r.Bytes()) == 8 {
						op.Int = int64(r.Uint64())
					}
				case "s", "x":
					op.Str = string(r.Bytes())
				}
				out = append(out, op)
			}
		})
	}
	return out
}

// buildConcInitDense: block 0 completely full, block 1 holds rows at the first 2+2*tasks
// offsets only (ten for four tasks). The lowest free offset is then right behind rows that
// tasks own and delete - so an insert that runs while such a delete is in flight
// is handed exactly that offset if the delete's fill bit was released too early.
func buildConcInitDense(tasks int) *concInit {
	key := fmt.Sprintf("dense/%d", tasks)
	if ci, ok := concInitCache[key]; ok {
		return ci
	}
	sch := concSchema(1024)
	c := newCollection(sch, column.Options{})
	defer c.Close()
	m := NewModel(sch)
	n := 16384 + 2 + 2*tasks // every owned row exists
	c.Query(func(txn *column.Txn) error {
		for i := 0; i < n; i++ {
			txn.Insert(func(r column.Row) error {
				r.SetInt("a", i%7)
				r.SetInt("m", i%5)
				r.SetString("s", fmt.Sprintf("s%d", i%3))
				return nil
			})
		}
		return nil
	})
	for i := 0; i < n; i++ {
		row := make(MRow, len(sch.Cols))
		row[ccA] = Cell{Has: true, V: Value{B: uint64(i % 7)}}
		row[ccM] = Cell{Has: true, V: Value{B: uint64(i % 5)}}
		row[ccS] = Cell{Has: true, V: Value{S: fmt.Sprintf("s%d", i%3)}}
		m.Rows[uint32(i)] = row
	}
	m.dirty()
	ci := &concInit{Sch: sch, Blocks: 2, Owned: make([][]uint32, tasks), M: m}
	ci.Shared = []uint32{0, 1, 63, 64, 16384, 16385}
	for t := 0; t < tasks; t++ {
		ci.Owned[t] = []uint32{uint32(200 + t), uint32(16384 + 2 + 2*t), uint32(16384 + 3 + 2*t)}
	}
	var buf bytes.Buffer
	if err := c.Snapshot(&buf); err != nil {
		panic(err)
	}
	ci.Snap = buf.Bytes()
	concInitCache[key] = ci
	return ci
}
