package harness

import (
	"fmt"
	"runtime"
	"strings"
	"testing"
	"time"

	"pgregory.net/rapid"
)

// ---------------------------------------------------------------------------
// Free-parallel counterparts of the controlled-schedule checks: the SAME generated
// programs (cprog.go) and the SAME oracles (checkWriterRun / checkSnapRun), but the
// tasks are ordinary goroutines on all cores. They reach the windows that no yield
// point reaches (inside a buffer's apply loop, inside the fill-list mutex, between two
// statements of one latch-protected region). The oracles only use facts that hold for
// every schedule:
//   - the recording logger is called under the block latch, so the record order of the
//     commits of one block IS their apply order;
//   - logical times come from one atomic counter: "acknowledged before the snapshot
//     began" = the transaction returned and ticked before the snapshot task ticked and
//     called Snapshot; "applied before it returned" = recorded before the tick that
//     follows Snapshot's return.
// A failure is reported with the program and the observed stream; it is not
// bit-reproducible (no schedule to replay), which the evidence states.
// ---------------------------------------------------------------------------

func parProgram(t *rapid.T, inserts bool) (*concProgram, int) {
	tasks := rapid.IntRange(2, 8).Draw(t, "tasks")
	blocks := rapid.IntRange(1, 3).Draw(t, "blocks")
	init := buildConcInit(blocks, 8)
	cfg := concGenCfg{Tasks: tasks, MinTxns: 4, MaxTxns: rapid.SampledFrom([]int{6, 12, 30}).Draw(t, "max-txns"), Deletes: true, Inserts: inserts, Puts: true, Aborts: true}
	if inserts && rapid.IntRange(0, 3).Draw(t, "dense-layout") == 0 {
		init = buildConcInitDense(8)
	}
	if rapid.IntRange(0, 4).Draw(t, "one-block-txns") == 0 {
		cfg.OneBlock = true
	}
	if inserts && rapid.IntRange(0, 3).Draw(t, "abort-heavy") == 0 {
		cfg.AbortHeavy = true
		cfg.MaxTxns = 30
	}
	p := genConcProgram(t, init, cfg)
	return p, rapid.SampledFrom([]int{1, 1024, 16385}).Draw(t, "capacity")
}

func describeStream(r *concRun) string {
	var b strings.Builder
	for _, rc := range r.Log.Since(r.N0) {
		fmt.Fprintf(&b, "#%d task%d block%d id=%d;", rc.Seq, rc.Task, rc.Chunk, rc.ID)
	}
	return b.String()
}

// TestParWriters: 2..8 writer goroutines run generated transactions (puts, commutative
// and order-sensitive merges, owned deletes, inserts; single- and multi-block) with real
// parallelism. VERIF_PROP selects the property whose oracle decides the run.
func TestParWriters(t *testing.T) {
	prop := schedProp()
	rapid.Check(t, func(t *rapid.T) {
		p, capacity := parProgram(t, rapid.Bool().Draw(t, "inserts"))
		r := startConcRun(p, capacity)
		defer r.Close()
		r.S.FreeSeed = rapid.Uint64().Draw(t, "yield-seed")
		r.ok = r.S.RunFree(30 * time.Second)
		if !r.ok {
			t.Fatalf("%s violated (free-parallel writers): %s%s\nprogram:\n%s", prop, r.S.Hang, r.S.Panic, p)
		}
		fails, nt, labels := checkWriterRun(r)
		for _, f := range fails {
			if f.Prop == prop {
				t.Fatalf("%s violated (free-parallel writers; not bit-reproducible): %s\nprogram:\n%s\nstream: %s", prop, f.Msg, p, describeStream(r))
			}
		}
		RecordCase(prop, "free-parallel: "+p.String(), nt[prop], dedupe(append(labels, "free-parallel"))...)
	})
}

// TestC08Parallel: the same writers beside a goroutine that takes a snapshot; the
// restored snapshot must be, per block, the primary after a prefix of that block's
// commits that contains every commit acknowledged before Snapshot was called and
// nothing recorded after it returned.
func TestC08Parallel(t *testing.T) {
	rapid.Check(t, func(t *rapid.T) {
		inserts := true
		if KFActive("f10-inflight-insert-visible") {
			CountExcluded("C08", "f10-inflight-insert-visible")
			inserts = false
		}
		p, capacity := parProgram(t, inserts)
		delay := rapid.IntRange(0, 300).Draw(t, "snapshot-delay")
		sr := &snapRun{concRun: startConcRun(p, capacity), Free: true}
		defer sr.Close()
		sr.S.FreeSeed = rapid.Uint64().Draw(t, "yield-seed")
		sr.addSnapshot(func() {
			for i := 0; i < delay; i++ {
				runtime.Gosched()
			}
		})
		if rapid.IntRange(0, 2).Draw(t, "second-snapshot") == 0 {
			delay2 := rapid.IntRange(0, 600).Draw(t, "snapshot2-delay")
			sr.addSnapshot(func() {
				for i := 0; i < delay2; i++ {
					runtime.Gosched()
				}
			})
		}
		sr.ok = sr.S.RunFree(30 * time.Second)
		if !sr.ok {
			t.Fatalf("C08 violated (snapshot beside free-parallel writers): %s%s\nprogram:\n%s", sr.S.Hang, sr.S.Panic, p)
		}
		msg, nt, labels := checkSnapRun(sr)
		if msg != "" {
			t.Fatalf("C08 violated (snapshot beside free-parallel writers; not bit-reproducible): %s\nprogram:\n%s(+ one goroutine calling Snapshot)\nstream: %s", msg, p, describeStream(sr.concRun))
		}
		RecordCase("C08", "free-parallel: "+p.String(), nt, dedupe(append(labels, "free-parallel"))...)
	})
}
