package harness

import (
	"fmt"
	"sync"
	"testing"
	"time"

	"github.com/kelindar/column"
	"pgregory.net/rapid"
)

// ---------------------------------------------------------------------------
// C11 — insert offsets never collide and reused offsets carry no stale data
// ---------------------------------------------------------------------------

func TestC11(t *testing.T) {
	rapid.Check(t, func(t *rapid.T) {
		sch := genSchema(t, SchemaCfg{Key: 1, Merges: true, EnsureLenMerge: true, MinCols: 2, MaxCols: 6}) // one schema in three has a key column (round 10): inserts are InsertKey with fresh keys there
		log := &recLogger{}
		mc := NewMachine("C11", sch, column.Options{Writer: log})
		defer mc.Close()
		defer mc.Guard(t)
		cfg := TxnCfg{Prop: "C11", MaxSteps: 8, Peeks: true, Rollback: true, FailInsert: true, Deletes: true, Inserts: true, Merges: true, OwnUpdates: true, Direct: true,
			NoStoreOnDel: KFActive("f11-store-and-delete-same-txn"), NoOpAfterLenMerge: KFActive("f15-difflen-merge-reorder")}
		insertHeavy := cfg
		insertHeavy.Deletes = false
		staleCandidate := false
		mc.OnTxn = func(spec TxnSpec, res []StepResult, committed bool, eff *TxnEffect) {
			if !committed {
				return
			}
			for i, st := range spec.Steps {
				if (st.Kind != SInsert && st.Kind != SInsertKey) || st.Fail || !res[i].Ran {
					continue
				}
				held, was := mc.prevDeleted[res[i].Offset]
				if !was {
					continue
				}
				stored := map[int]bool{}
				for _, s := range st.Stores {
					stored[s.Col] = true
				}
				for ci, h := range held {
					if h && !stored[ci] {
						staleCandidate = true
						mc.flag("reuse-of-offset-that-held-other-columns")
					}
				}
			}
		}
		t.Repeat(map[string]func(*rapid.T){
			"fill": func(t *rapid.T) {
				if len(mc.M.Rows) > 34000 {
					t.Skip("large enough")
				}
				n := rapid.SampledFrom([]int{1, 2, 63, 64, 65, 127, 128, 129, 16383, 16384, 16385}).Draw(t, "fill-n")
				if n > 1000 && mc.bigPrefills >= 2 {
					n = rapid.SampledFrom([]int{63, 64, 65}).Draw(t, "fill-n-small")
				}
				if n > 1000 {
					mc.bigPrefills++
				}
				// values in EVERY column, so that every freed offset has held data everywhere
				mc.snapshotDeleted()
				mc.ActPrefill(t, n, storableCols(mc.M, TxnCfg{}), rapid.Uint64().Draw(t, "seed"))
				mc.sampleCheck(t)
			},
			"bulkDelete": func(t *rapid.T) { mc.snapshotDeleted(); mc.ActBulkDelete(t); mc.sampleCheck(t) },
			"txn":        func(t *rapid.T) { mc.snapshotDeleted(); mc.ActTxn(t, cfg) },
			"inserts":    func(t *rapid.T) { mc.snapshotDeleted(); mc.ActTxn(t, insertHeavy) },
			"insertOne": func(t *rapid.T) {
				// one insert storing into at most one column, then every column of the fresh row is read
				mc.snapshotDeleted()
				st := Step{Kind: SInsert, Stores: genStores(t, mc.M, cfg, 0, 1, "one")}
				if mc.Sch.Key >= 0 {
					st.Kind, st.Key = SInsertKey, fmt.Sprintf("one%d_%d", len(mc.M.Rows), rapid.IntRange(0, 1<<30).Draw(t, "fresh-key"))
				}
				eff, committed := mc.RunTxn(t, TxnSpec{Steps: []Step{st}, FailAt: -1}, rapid.Bool().Draw(t, "direct"))
				if committed {
					mc.CheckRows(t, eff.Inserted, ReadRowTyped, ReadRowAny)
					mc.CheckRows(t, eff.Inserted, ReadTxnTyped, ReadTxnAny)
				}
				mc.CheckCount(t)
			},
		})
		mc.CheckFull(t, false)
		mc.CheckFull(t, true)
		// the same history as a stream follower sees it: re-used offsets must not carry stale data there either
		replica := newCollection(sch, column.Options{})
		defer replica.Close()
		for _, rc := range log.Since(0) {
			cl := rc.Clone.Clone()
			cl.ID = rc.ID
			if err := replica.Replay(cl); err != nil {
				mc.fail(t, "Replay of commit #%d: %v", rc.Seq, err)
			}
		}
		mc.CheckDerived(t, replica, "collection that replayed the change stream of this history", false)
		RecordCase("C11", mc.Desc(), staleCandidate, mc.Labels()...)
	})
}

// ---- free-parallel part: unique tags ------------------------------------------

type c11Op struct {
	Insert bool
	N      int // inserts in this transaction
	Del    int // index into the goroutine's own surviving rows (deletes)
	Fail   bool
}

func TestC11Parallel(t *testing.T) {
	rapid.Check(t, func(t *rapid.T) {
		workers := rapid.IntRange(2, 8).Draw(t, "workers")
		capacity := rapid.SampledFrom(capacities).Draw(t, "capacity")
		prefill := rapid.SampledFrom([]int{0, 0, 60, 16380}).Draw(t, "prefill")
		progs := make([][]c11Op, workers)
		for w := range progs {
			n := rapid.IntRange(5, 60).Draw(t, "nops")
			for i := 0; i < n; i++ {
				op := c11Op{Insert: rapid.IntRange(0, 2).Draw(t, "kind") != 0}
				if op.Insert {
					op.N = rapid.IntRange(1, 5).Draw(t, "n")
					op.Fail = rapid.IntRange(0, 9).Draw(t, "fail") == 0
				} else {
					op.Del = rapid.IntRange(0, 1<<16).Draw(t, "del")
				}
				progs[w] = append(progs[w], op)
			}
		}
		c := column.NewCollection(column.Options{Capacity: capacity, Vacuum: 24 * 3600 * 1e9})
		defer c.Close()
		c.CreateColumn("tag", column.ForUint64())
		c.CreateColumn("junk", column.ForInt())
		c.CreateColumn("e", column.ForEnum())
		// pre-existing rows that hold junk and get deleted by worker 0 first (so offsets with stale data exist)
		var pre []uint32
		c.Query(func(txn *column.Txn) error {
			for i := 0; i < prefill; i++ {
				off, _ := txn.Insert(func(r column.Row) error { r.SetInt("junk", 77); r.SetUint64("tag", 1<<63|uint64(i)); return nil })
				pre = append(pre, off)
			}
			return nil
		})
		c.Query(func(txn *column.Txn) error {
			for i, off := range pre {
				if i%3 != 0 {
					txn.DeleteAt(off)
				}
			}
			return nil
		})
		type owned struct {
			tag uint64
			off uint32
		}
		survivors := make([][]owned, workers)
		var wg sync.WaitGroup
		var errMu sync.Mutex
		var firstErr string
		for w := 0; w < workers; w++ {
			wg.Add(1)
			go func(w int) {
				defer wg.Done()
				defer func() {
					if r := recover(); r != nil {
						errMu.Lock()
						firstErr = fmt.Sprintf("worker %d panicked: %v", w, r)
						errMu.Unlock()
					}
				}()
				var mine []owned
				seq := uint64(0)
				for _, op := range progs[w] {
					if op.Insert {
						var added []owned
						err := c.Query(func(txn *column.Txn) error {
							for k := 0; k < op.N; k++ {
								seq++
								tag := uint64(w+1)<<32 | seq
								off, err := txn.Insert(func(r column.Row) error {
									r.SetUint64("tag", tag)
									r.SetEnum("e", fmt.Sprintf("e%x", tag)) // a fresh dictionary entry per insert
									return nil
								})
								if err != nil {
									return err
								}
								added = append(added, owned{tag, off})
							}
							if op.Fail {
								return errRollback
							}
							return nil
						})
						if err == nil {
							mine = append(mine, added...)
						}
					} else if len(mine) > 0 {
						i := op.Del % len(mine)
						if !c.DeleteAt(mine[i].off) {
							errMu.Lock()
							firstErr = fmt.Sprintf("worker %d: DeleteAt(%d) of its own live row returned false", w, mine[i].off)
							errMu.Unlock()
						}
						mine = append(mine[:i], mine[i+1:]...)
					}
				}
				survivors[w] = mine
			}(w)
		}
		wg.Wait()
		if firstErr != "" {
			t.Fatalf("C11 violated (free-parallel run): %s", firstErr)
		}
		// quiescent: every surviving tag exactly once, at the offset its insert returned
		found := map[uint64][]uint32{}
		junk := 0
		rows := 0
		badEnum := ""
		c.Query(func(txn *column.Txn) error {
			tag := txn.Uint64("tag")
			jk := txn.Int("junk")
			en := txn.Enum("e")
			return txn.Range(func(idx uint32) {
				rows++
				if v, ok := tag.Get(); ok {
					if e, has := en.Get(); v>>63 == 0 && (!has || e != fmt.Sprintf("e%x", v)) && badEnum == "" {
						badEnum = fmt.Sprintf("row %d (tag %#x) reads enum %q,%v, its insert stored %q", idx, v, e, has, fmt.Sprintf("e%x", v))
					}
					found[v] = append(found[v], idx)
					if _, has := jk.Get(); has && v>>63 == 0 {
						junk++
					}
				}
			})
		})
		want := 0
		reused := 0
		preSet := map[uint32]bool{}
		for i, off := range pre {
			if i%3 != 0 {
				preSet[off] = true
			} else {
				want++
			}
		}
		for w := range survivors {
			for _, o := range survivors[w] {
				want++
				at := found[o.tag]
				if len(at) != 1 || at[0] != o.off {
					t.Fatalf("C11 violated (free-parallel run): tag %#x inserted at offset %d is found at %v (another insert overwrote it or it was lost); workers=%d capacity=%d prefill=%d",
						o.tag, o.off, at, workers, capacity, prefill)
				}
				if preSet[o.off] {
					reused++
				}
			}
		}
		if badEnum != "" {
			t.Fatalf("C11 violated (free-parallel run): %s (a concurrent insert's value replaced it or the dictionary lost it); workers=%d capacity=%d prefill=%d", badEnum, workers, capacity, prefill)
		}
		if junk != 0 {
			t.Fatalf("C11 violated (free-parallel run): %d fresh rows expose the value a previous occupant stored in a column they never wrote", junk)
		}
		if rows != want || c.Count() != want {
			t.Fatalf("C11 violated (free-parallel run): %d rows visible, Count()=%d, %d rows survive according to the workers; workers=%d capacity=%d prefill=%d", rows, c.Count(), want, workers, capacity, prefill)
		}
		desc := fmt.Sprintf("workers=%d capacity=%d prefill=%d programs=%v", workers, capacity, prefill, progs)
		RecordCase("C11", desc, reused > 0, "free-parallel", map[bool]string{true: "parallel-reuse-of-stale-offset", false: "parallel-no-reuse"}[reused > 0])
	})
}

// ---------------------------------------------------------------------------
// TestC11Latched: an insert that is handed the offset of a row whose delete is being
// committed RIGHT NOW. The deleting commit is parked (verif hook commit:mid-apply, block
// write latch held) after it has released the offset in the fill-list and before the
// dead row's values are cleared from the columns; a second goroutine inserts. In a
// dense collection whose tail word is full the allocator hands out exactly the freed
// offset. Whatever the schedule, the insert's callback must see a row that holds
// nothing (on the real code it simply waits for the latch).
// ---------------------------------------------------------------------------

func runC11Latched(rows int, victim uint32, extra []uint32, parkAt int, storeInProbe bool) (msg string, parkedMid, probeBlocked bool, probeOff uint32) {
	c := column.NewCollection(column.Options{Capacity: 1024, Vacuum: 24 * 3600 * 1e9})
	defer c.Close()
	c.CreateColumn("n", column.ForInt())
	c.CreateColumn("s", column.ForString())
	c.CreateColumn("e", column.ForEnum())
	c.CreateColumn("b", column.ForBool())
	c.CreateColumn("f", column.ForFloat32())
	c.Query(func(txn *column.Txn) error {
		for i := 0; i < rows; i++ {
			txn.Insert(func(r column.Row) error {
				r.SetInt("n", 1000+i)
				r.SetString("s", fmt.Sprintf("old%d", i))
				r.SetEnum("e", "red")
				r.SetBool("b", true)
				r.SetFloat32("f", 1.5)
				return nil
			})
		}
		return nil
	})
	var writerGID int64
	count := 0
	parked := make(chan struct{}, 1)
	resume := make(chan struct{})
	column.SetVerifHook(func(point string, block uint32) {
		if point != "commit:mid-apply" || curGID() != writerGID {
			return
		}
		count++
		if count == parkAt {
			parked <- struct{}{}
			<-resume
		}
	})
	defer column.SetVerifHook(nil)
	wdone := make(chan struct{})
	go func() {
		writerGID = curGID()
		defer close(wdone)
		c.Query(func(txn *column.Txn) error {
			for _, off := range extra {
				txn.QueryAt(off, func(r column.Row) error { r.SetInt("n", 7); r.SetString("s", "upd"); return nil })
			}
			txn.DeleteAt(victim)
			return nil
		})
	}()
	select {
	case <-parked:
		parkedMid = true
	case <-wdone:
		return "", false, false, 0
	case <-after(10 * time.Second):
		return "the deleting commit did not reach a yield point within 10 s (deadlock?)", false, false, 0
	}
	bad := ""
	pdone := make(chan struct{})
	go func() {
		defer close(pdone)
		defer func() {
			if p := recover(); p != nil {
				bad = fmt.Sprintf("the insert panicked: %v", p)
			}
		}()
		off, err := c.Insert(func(r column.Row) error {
			n, okN := r.Int("n")
			s, okS := r.String("s")
			e, okE := r.Enum("e")
			b := r.Bool("b")
			f, okF := r.Float32("f")
			if okN || okS || okE || b || okF {
				bad = fmt.Sprintf("the callback of an insert at offset %d sees n=%d/%v s=%q/%v e=%q/%v b=%v f=%v/%v: values left behind by the previous occupant (its delete was being committed)", r.Index(), n, okN, s, okS, e, okE, b, f, okF)
			}
			if storeInProbe {
				r.SetString("s", "new")
			}
			return nil
		})
		probeOff = off
		if err != nil {
			bad = fmt.Sprintf("Insert failed: %v", err)
		}
	}()
	select {
	case <-pdone:
	case <-time.After(5 * time.Millisecond):
		probeBlocked = true
	}
	close(resume)
	for _, ch := range []chan struct{}{wdone, pdone} {
		select {
		case <-ch:
		case <-after(10 * time.Second):
			return "the deleting commit and the concurrent insert did not both finish within 10 s (deadlock?)", parkedMid, probeBlocked, probeOff
		}
	}
	if bad != "" {
		return bad, parkedMid, probeBlocked, probeOff
	}
	// quiescent: the new row holds exactly what its insert stored, Count = rows (one deleted, one inserted)
	var final string
	c.QueryAt(probeOff, func(r column.Row) error {
		n, okN := r.Int("n")
		s, okS := r.String("s")
		_, okE := r.Enum("e")
		_, okF := r.Float32("f")
		if okN || okE || r.Bool("b") || okF || okS != storeInProbe || (storeInProbe && s != "new") {
			final = fmt.Sprintf("after both finished, the row inserted at offset %d reads n=%d/%v s=%q/%v e present=%v b=%v f present=%v; its insert stored %v", probeOff, n, okN, s, okS, okE, r.Bool("b"), okF, map[bool]string{true: `s="new"`, false: "nothing"}[storeInProbe])
		}
		return nil
	})
	if final == "" && c.Count() != rows {
		final = fmt.Sprintf("Count()=%d after one delete and one insert on %d rows", c.Count(), rows)
	}
	return final, parkedMid, probeBlocked, probeOff
}

func TestC11Latched(t *testing.T) {
	rapid.Check(t, func(t *rapid.T) {
		rows := rapid.SampledFrom([]int{64, 128, 192, 16384 + 64}).Draw(t, "rows") // the tail word is full: the lowest free offset is handed out
		victim := uint32(rapid.IntRange(0, rows-1).Draw(t, "victim"))
		if rows > 16384 && rapid.Bool().Draw(t, "second-block") {
			victim = 16384 + uint32(rapid.IntRange(0, 63).Draw(t, "victim-hi"))
		}
		var extra []uint32
		for n := rapid.IntRange(0, 2).Draw(t, "extra-updates"); n > 0; n-- {
			off := uint32(rapid.IntRange(0, rows-1).Draw(t, "extra"))
			if off != victim {
				extra = append(extra, off)
			}
		}
		parkAt := rapid.IntRange(1, 4).Draw(t, "park-at")
		store := rapid.Bool().Draw(t, "probe-stores")
		msg, parkedMid, blocked, off := runC11Latched(rows, victim, extra, parkAt, store)
		if msg != "" {
			t.Fatalf("C11 violated: %s\nrows=%d delete@%d updates@%v commit parked at its mid-apply point #%d", msg, rows, victim, extra, parkAt)
		}
		labels := []string{"latched-insert-probe"}
		if blocked {
			labels = append(labels, "insert-waited-for-the-latch")
		}
		if off == victim {
			labels = append(labels, "insert-got-the-freed-offset")
		}
		RecordCase("C11", fmt.Sprintf("latched rows=%d delete@%d updates@%v parkAt=%d probeStores=%v -> insert@%d blocked=%v", rows, victim, extra, parkAt, store, off, blocked), parkedMid && off == victim, labels...)
	})
}
