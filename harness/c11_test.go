package harness

import (
	"fmt"
	"sync"
	"testing"

	"github.com/kelindar/column"
	"pgregory.net/rapid"
)

// ---------------------------------------------------------------------------
// C11 — insert offsets never collide and reused offsets carry no stale data
// ---------------------------------------------------------------------------

func TestC11(t *testing.T) {
	rapid.Check(t, func(t *rapid.T) {
		sch := genSchema(t, SchemaCfg{Key: 0, Merges: true, EnsureLenMerge: true, MinCols: 2, MaxCols: 6})
		mc := NewMachine("C11", sch, column.Options{})
		defer mc.Close()
		defer mc.Guard(t)
		cfg := TxnCfg{Prop: "C11", MaxSteps: 8, Peeks: true, Rollback: true, FailInsert: true, Deletes: true, Inserts: true, Merges: true, OwnUpdates: true, Direct: true,
			NoStoreOnDel: KFActive("f11-store-and-delete-same-txn"), NoOpAfterLenMerge: KFActive("f15-difflen-merge-reorder")}
		insertHeavy := cfg
		insertHeavy.Deletes = false
		staleCandidate := false
		mc.OnTxn = func(spec TxnSpec, res []StepResult, committed bool, eff *TxnEffect) {
			if !committed {
				return
			}
			for i, st := range spec.Steps {
				if st.Kind != SInsert || st.Fail || !res[i].Ran {
					continue
				}
				held, was := mc.prevDeleted[res[i].Offset]
				if !was {
					continue
				}
				stored := map[int]bool{}
				for _, s := range st.Stores {
					stored[s.Col] = true
				}
				for ci, h := range held {
					if h && !stored[ci] {
						staleCandidate = true
						mc.flag("reuse-of-offset-that-held-other-columns")
					}
				}
			}
		}
		t.Repeat(map[string]func(*rapid.T){
			"fill": func(t *rapid.T) {
				if len(mc.M.Rows) > 34000 {
					t.Skip("large enough")
				}
				n := rapid.SampledFrom([]int{1, 2, 63, 64, 65, 127, 128, 129, 16383, 16384, 16385}).Draw(t, "fill-n")
				if n > 1000 && mc.bigPrefills >= 2 {
					n = rapid.SampledFrom([]int{63, 64, 65}).Draw(t, "fill-n-small")
				}
				if n > 1000 {
					mc.bigPrefills++
				}
				// values in EVERY column, so that every freed offset has held data everywhere
				mc.snapshotDeleted()
				mc.ActPrefill(t, n, storableCols(mc.M, TxnCfg{}), rapid.Uint64().Draw(t, "seed"))
				mc.sampleCheck(t)
			},
			"bulkDelete": func(t *rapid.T) { mc.snapshotDeleted(); mc.ActBulkDelete(t); mc.sampleCheck(t) },
			"txn":        func(t *rapid.T) { mc.snapshotDeleted(); mc.ActTxn(t, cfg) },
			"inserts":    func(t *rapid.T) { mc.snapshotDeleted(); mc.ActTxn(t, insertHeavy) },
			"insertOne": func(t *rapid.T) {
				// one insert storing into at most one column, then every column of the fresh row is read
				mc.snapshotDeleted()
				st := Step{Kind: SInsert, Stores: genStores(t, mc.M, cfg, 0, 1, "one")}
				eff, committed := mc.RunTxn(t, TxnSpec{Steps: []Step{st}, FailAt: -1}, rapid.Bool().Draw(t, "direct"))
				if committed {
					mc.CheckRows(t, eff.Inserted, ReadRowTyped, ReadRowAny)
					mc.CheckRows(t, eff.Inserted, ReadTxnTyped, ReadTxnAny)
				}
				mc.CheckCount(t)
			},
		})
		mc.CheckFull(t, false)
		mc.CheckFull(t, true)
		RecordCase("C11", mc.Desc(), staleCandidate, mc.Labels()...)
	})
}

// ---- free-parallel part: unique tags ------------------------------------------

type c11Op struct {
	Insert bool
	N      int // inserts in this transaction
	Del    int // index into the goroutine's own surviving rows (deletes)
	Fail   bool
}

func TestC11Parallel(t *testing.T) {
	rapid.Check(t, func(t *rapid.T) {
		workers := rapid.IntRange(2, 8).Draw(t, "workers")
		capacity := rapid.SampledFrom(capacities).Draw(t, "capacity")
		prefill := rapid.SampledFrom([]int{0, 0, 60, 16380}).Draw(t, "prefill")
		progs := make([][]c11Op, workers)
		for w := range progs {
			n := rapid.IntRange(5, 60).Draw(t, "nops")
			for i := 0; i < n; i++ {
				op := c11Op{Insert: rapid.IntRange(0, 2).Draw(t, "kind") != 0}
				if op.Insert {
					op.N = rapid.IntRange(1, 5).Draw(t, "n")
					op.Fail = rapid.IntRange(0, 9).Draw(t, "fail") == 0
				} else {
					op.Del = rapid.IntRange(0, 1<<16).Draw(t, "del")
				}
				progs[w] = append(progs[w], op)
			}
		}
		c := column.NewCollection(column.Options{Capacity: capacity, Vacuum: 24 * 3600 * 1e9})
		defer c.Close()
		c.CreateColumn("tag", column.ForUint64())
		c.CreateColumn("junk", column.ForInt())
		c.CreateColumn("e", column.ForEnum())
		// pre-existing rows that hold junk and get deleted by worker 0 first (so offsets with stale data exist)
		var pre []uint32
		c.Query(func(txn *column.Txn) error {
			for i := 0; i < prefill; i++ {
				off, _ := txn.Insert(func(r column.Row) error { r.SetInt("junk", 77); r.SetUint64("tag", 1<<63|uint64(i)); return nil })
				pre = append(pre, off)
			}
			return nil
		})
		c.Query(func(txn *column.Txn) error {
			for i, off := range pre {
				if i%3 != 0 {
					txn.DeleteAt(off)
				}
			}
			return nil
		})
		type owned struct {
			tag uint64
			off uint32
		}
		survivors := make([][]owned, workers)
		var wg sync.WaitGroup
		var errMu sync.Mutex
		var firstErr string
		for w := 0; w < workers; w++ {
			wg.Add(1)
			go func(w int) {
				defer wg.Done()
				defer func() {
					if r := recover(); r != nil {
						errMu.Lock()
						firstErr = fmt.Sprintf("worker %d panicked: %v", w, r)
						errMu.Unlock()
					}
				}()
				var mine []owned
				seq := uint64(0)
				for _, op := range progs[w] {
					if op.Insert {
						var added []owned
						err := c.Query(func(txn *column.Txn) error {
							for k := 0; k < op.N; k++ {
								seq++
								tag := uint64(w+1)<<32 | seq
								off, err := txn.Insert(func(r column.Row) error {
									r.SetUint64("tag", tag)
									r.SetEnum("e", fmt.Sprintf("e%x", tag)) // a fresh dictionary entry per insert
									return nil
								})
								if err != nil {
									return err
								}
								added = append(added, owned{tag, off})
							}
							if op.Fail {
								return errRollback
							}
							return nil
						})
						if err == nil {
							mine = append(mine, added...)
						}
					} else if len(mine) > 0 {
						i := op.Del % len(mine)
						if !c.DeleteAt(mine[i].off) {
							errMu.Lock()
							firstErr = fmt.Sprintf("worker %d: DeleteAt(%d) of its own live row returned false", w, mine[i].off)
							errMu.Unlock()
						}
						mine = append(mine[:i], mine[i+1:]...)
					}
				}
				survivors[w] = mine
			}(w)
		}
		wg.Wait()
		if firstErr != "" {
			t.Fatalf("C11 violated (free-parallel run): %s", firstErr)
		}
		// quiescent: every surviving tag exactly once, at the offset its insert returned
		found := map[uint64][]uint32{}
		junk := 0
		rows := 0
		badEnum := ""
		c.Query(func(txn *column.Txn) error {
			tag := txn.Uint64("tag")
			jk := txn.Int("junk")
			en := txn.Enum("e")
			return txn.Range(func(idx uint32) {
				rows++
				if v, ok := tag.Get(); ok {
					if e, has := en.Get(); v>>63 == 0 && (!has || e != fmt.Sprintf("e%x", v)) && badEnum == "" {
						badEnum = fmt.Sprintf("row %d (tag %#x) reads enum %q,%v, its insert stored %q", idx, v, e, has, fmt.Sprintf("e%x", v))
					}
					found[v] = append(found[v], idx)
					if _, has := jk.Get(); has && v>>63 == 0 {
						junk++
					}
				}
			})
		})
		want := 0
		reused := 0
		preSet := map[uint32]bool{}
		for i, off := range pre {
			if i%3 != 0 {
				preSet[off] = true
			} else {
				want++
			}
		}
		for w := range survivors {
			for _, o := range survivors[w] {
				want++
				at := found[o.tag]
				if len(at) != 1 || at[0] != o.off {
					t.Fatalf("C11 violated (free-parallel run): tag %#x inserted at offset %d is found at %v (another insert overwrote it or it was lost); workers=%d capacity=%d prefill=%d",
						o.tag, o.off, at, workers, capacity, prefill)
				}
				if preSet[o.off] {
					reused++
				}
			}
		}
		if badEnum != "" {
			t.Fatalf("C11 violated (free-parallel run): %s (a concurrent insert's value replaced it or the dictionary lost it); workers=%d capacity=%d prefill=%d", badEnum, workers, capacity, prefill)
		}
		if junk != 0 {
			t.Fatalf("C11 violated (free-parallel run): %d fresh rows expose the value a previous occupant stored in a column they never wrote", junk)
		}
		if rows != want || c.Count() != want {
			t.Fatalf("C11 violated (free-parallel run): %d rows visible, Count()=%d, %d rows survive according to the workers; workers=%d capacity=%d prefill=%d", rows, c.Count(), want, workers, capacity, prefill)
		}
		desc := fmt.Sprintf("workers=%d capacity=%d prefill=%d programs=%v", workers, capacity, prefill, progs)
		RecordCase("C11", desc, reused > 0, "free-parallel", map[bool]string{true: "parallel-reuse-of-stale-offset", false: "parallel-no-reuse"}[reused > 0])
	})
}
