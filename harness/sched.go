package harness

import (
	"fmt"
	"runtime"
	"strconv"
	"strings"
	"sync"
	"time"

	"github.com/kelindar/column"
)

// ---------------------------------------------------------------------------
// Cooperative scheduler (DESIGN.md §2.4): every task is a goroutine that runs
// only while it holds the baton; at each yield point (verif hooks inside
// kelindar/column, explicit Yield calls in task bodies) it parks and the
// scheduler - on the calling goroutine - picks who runs next.
// ---------------------------------------------------------------------------

type schedEvent struct {
	Clock int
	Task  int
	Point string // yield point, "start", "done", "panic", "blocked", "unblocked"
	Block uint32
}

func (e schedEvent) String() string {
	return fmt.Sprintf("%d:t%d@%s/%d", e.Clock, e.Task, e.Point, e.Block)
}

type schedTask struct {
	id     int
	name   string
	fn     func()
	resume chan struct{}
	parked chan schedEvent
	done   bool
	gid    int64
	// may-block steps (latch-held mode)
	blocked bool
	nyield  uint64 // free mode: hook points passed so far
}

// Sched runs a set of tasks under a schedule source.
type Sched struct {
	tasks []*schedTask
	byGID sync.Map // goroutine id -> *schedTask
	Trace []schedEvent
	clock int
	// Pick chooses the next task among the runnable ones (indexes into runnable).
	Pick func(runnable []int, last int) int
	// Points restricts which hook points park a task (nil = all except commit:mid-apply).
	Points    map[string]bool
	LatchHeld bool // C10 mode: commit:mid-apply parks too
	Hang      string
	Panic     string
	StepLimit time.Duration
	current   int
	// free mode (RunFree): tasks are ordinary goroutines, nothing is serialized
	free     bool
	mu       sync.Mutex
	FreeSeed uint64 // decides at which hook points a task yields the processor
}

func NewSched() *Sched {
	return &Sched{StepLimit: 10 * time.Second, current: -1}
}

func curGID() int64 {
	var buf [64]byte
	n := runtime.Stack(buf[:], false)
	// "goroutine 123 [running]:"
	s := string(buf[:n])
	s = strings.TrimPrefix(s, "goroutine ")
	if i := strings.IndexByte(s, ' '); i > 0 {
		id, _ := strconv.ParseInt(s[:i], 10, 64)
		return id
	}
	return -1
}

// Add registers a task.
func (s *Sched) Add(name string, fn func()) int {
	t := &schedTask{id: len(s.tasks), name: name, fn: fn, resume: make(chan struct{}), parked: make(chan schedEvent, 1)}
	s.tasks = append(s.tasks, t)
	return t.id
}

// Clock returns the logical time (advanced at every recorded event).
func (s *Sched) Clock() int { return s.clock }

// Tick advances the logical clock (used by loggers to time-stamp commits).
func (s *Sched) Tick() int {
	s.mu.Lock()
	defer s.mu.Unlock()
	s.clock++
	return s.clock
}

// CurrentTask returns the id of the task the calling goroutine belongs to (-1 if none).
func (s *Sched) CurrentTask() int {
	if t, ok := s.byGID.Load(curGID()); ok {
		return t.(*schedTask).id
	}
	return -1
}

// Yield parks the calling task at a named point (no-op outside tasks).
func (s *Sched) Yield(point string, block uint32) {
	v, ok := s.byGID.Load(curGID())
	if !ok {
		return
	}
	t := v.(*schedTask)
	if s.free {
		s.freeYield(t, point, block)
		return
	}
	if point == "commit:mid-apply" && !s.LatchHeld {
		return
	}
	if s.Points != nil && !s.Points[point] && !strings.HasPrefix(point, "body") {
		return
	}
	t.parked <- schedEvent{Task: t.id, Point: point, Block: block}
	<-t.resume
}

func (s *Sched) record(e schedEvent) {
	s.mu.Lock()
	s.clock++
	e.Clock = s.clock
	s.Trace = append(s.Trace, e)
	s.mu.Unlock()
}

// freeYield is the hook of free mode: protocol points are recorded with their logical
// time (real-time order, under a mutex) and the task gives up the processor at a
// pseudo-random subset of the points (also inside a block commit, where it widens the
// window in which the latch is held).
func (s *Sched) freeYield(t *schedTask, point string, block uint32) {
	if point != "commit:mid-apply" && point != "body" {
		s.record(schedEvent{Task: t.id, Point: point, Block: block})
	}
	t.nyield++
	x := (s.FreeSeed ^ uint64(t.id+1)*0x9E3779B97F4A7C15) + t.nyield*0xBF58476D1CE4E5B9
	x ^= x >> 31
	x *= 0x94D049BB133111EB
	x ^= x >> 29
	switch x % 4 {
	case 0:
		runtime.Gosched()
	case 1:
		for i := (x >> 8) % 64; i > 0; i-- {
			runtime.Gosched()
		}
	}
}

// RunFree starts every task as an ordinary goroutine (real parallelism, common start
// barrier) and waits for all of them. It returns false if a task panicked or the tasks
// did not all finish within limit (see Hang / Panic).
func (s *Sched) RunFree(limit time.Duration) bool {
	s.free = true
	column.SetVerifHook(s.Yield)
	defer column.SetVerifHook(nil)
	start := make(chan struct{})
	var wg sync.WaitGroup
	for _, t := range s.tasks {
		t := t
		wg.Add(1)
		ready := make(chan struct{})
		go func() {
			defer wg.Done()
			t.gid = curGID()
			s.byGID.Store(t.gid, t)
			close(ready)
			defer func() {
				if r := recover(); r != nil {
					buf := make([]byte, 1<<13)
					buf = buf[:runtime.Stack(buf, false)]
					s.mu.Lock()
					s.Panic += fmt.Sprintf("task %d (%s): panic: %v\n%s\n", t.id, t.name, r, trimStack(string(buf)))
					s.mu.Unlock()
				}
			}()
			<-start
			t.fn()
		}()
		<-ready
	}
	close(start)
	done := make(chan struct{})
	go func() { wg.Wait(); close(done) }()
	// A hang is reported only when NO task made progress (the logical clock stood still) for a whole
	// window of the given length. Total elapsed time is not a signal: on a loaded machine a program
	// of a few milliseconds can take longer than any fixed limit (DESIGN.md §14, alarm 17).
	// The window is counted in polls, not read off the clock: a process (or machine) that was
	// stopped for a minute comes back with ONE poll due, not with a minute of "no progress".
	last, idle, began := -1, 0, time.Now()
	tick := time.NewTicker(limit / 10)
	defer tick.Stop()
	for {
		select {
		case <-done:
			return s.Panic == ""
		case <-tick.C:
		}
		s.mu.Lock()
		now := s.clock
		s.mu.Unlock()
		if now != last {
			last, idle = now, 0
			continue
		}
		if idle++; idle >= 12 {
			s.mu.Lock()
			s.Hang = fmt.Sprintf("no task made progress during %d consecutive polls %s apart under real parallelism (%s after the start; deadlock, or a task died holding a latch) ", idle, limit/10, time.Since(began).Round(time.Second))
			s.mu.Unlock()
			return false
		}
	}
}

// Run executes all tasks to completion under the schedule source. It returns
// false if a step hung or a task panicked (see Hang / Panic).
func (s *Sched) Run() bool {
	column.SetVerifHook(s.Yield)
	defer column.SetVerifHook(nil)
	for _, t := range s.tasks {
		t := t
		started := make(chan struct{})
		go func() {
			t.gid = curGID()
			s.byGID.Store(t.gid, t)
			close(started)
			<-t.resume
			defer func() {
				if r := recover(); r != nil {
					buf := make([]byte, 1<<13)
					buf = buf[:runtime.Stack(buf, false)]
					t.parked <- schedEvent{Task: t.id, Point: "panic: " + fmt.Sprint(r) + "\n" + trimStack(string(buf))}
					return
				}
				t.parked <- schedEvent{Task: t.id, Point: "done"}
			}()
			t.fn()
		}()
		<-started
	}
	last := -1
	for {
		var runnable []int
		for _, t := range s.tasks {
			if !t.done && !t.blocked {
				runnable = append(runnable, t.id)
			}
		}
		if len(runnable) == 0 {
			// only blocked tasks may remain: collect them (their blocker has finished)
			pending := false
			for _, t := range s.tasks {
				if !t.done && t.blocked {
					pending = true
					if !s.await(t) {
						return false
					}
				}
			}
			if !pending {
				return true
			}
			continue
		}
		choice := 0
		if len(runnable) > 1 {
			choice = s.Pick(runnable, last)
		}
		t := s.tasks[runnable[choice]]
		last = t.id
		s.current = t.id
		t.resume <- struct{}{}
		if !s.await(t) {
			return false
		}
	}
}

// await waits for the running task to park or finish.
func (s *Sched) await(t *schedTask) bool {
	var e schedEvent
	select {
	case e = <-t.parked:
	case <-time.After(s.StepLimit):
		// confirmation period (see after() in stats.go): a process that was stopped for longer
		// than the limit comes back with this timer due although the task got no time; the
		// stop can use up only one of the short timers that follow
		got := false
		for i := 0; i < 5 && !got; i++ {
			select {
			case e = <-t.parked:
				got = true
			case <-time.After(s.StepLimit / 5):
			}
		}
		if !got {
			s.Hang = fmt.Sprintf("task %d (%s) did not reach a yield point or finish within %s (deadlock?)", t.id, t.name, 2*s.StepLimit)
			return false
		}
	}
	t.blocked = false
	if strings.HasPrefix(e.Point, "panic") {
		t.done = true
		s.Panic = fmt.Sprintf("task %d (%s): %s", t.id, t.name, e.Point)
		s.record(schedEvent{Task: t.id, Point: "panic"})
		return false
	}
	if e.Point == "done" {
		t.done = true
	}
	s.record(e)
	return true
}

// RunMayBlock resumes task id as a may-block step (latch-held mode): if it
// neither parks nor finishes within wait it is recorded as blocked and left
// alone; Run collects it once it is the only kind of task left, or the caller
// does with Collect. Returns true if the task completed the step.
func (s *Sched) stepMayBlock(t *schedTask, wait time.Duration) (completed bool, ok bool) {
	t.resume <- struct{}{}
	select {
	case e := <-t.parked:
		if strings.HasPrefix(e.Point, "panic") {
			t.done = true
			s.Panic = fmt.Sprintf("task %d (%s): %s", t.id, t.name, e.Point)
			return false, false
		}
		if e.Point == "done" {
			t.done = true
		}
		s.record(e)
		return true, true
	case <-time.After(wait):
		t.blocked = true
		s.record(schedEvent{Task: t.id, Point: "blocked"})
		return false, true
	}
}

func (s *Sched) TraceString() string {
	parts := make([]string, len(s.Trace))
	for i, e := range s.Trace {
		parts[i] = e.String()
	}
	return strings.Join(parts, " ")
}

// ---------------------------------------------------------------------------
// Bounded-exhaustive schedule enumeration (stateless DFS: every schedule is a
// fresh execution).
// ---------------------------------------------------------------------------

type dfsEnum struct {
	stack []dfsChoice
	pos   int
}

type dfsChoice struct {
	choice, n int
}

// pick is used as Sched.Pick during one execution.
func (d *dfsEnum) pick(runnable []int, last int) int {
	if d.pos < len(d.stack) {
		c := d.stack[d.pos]
		d.pos++
		if c.choice >= len(runnable) {
			return len(runnable) - 1
		}
		return c.choice
	}
	d.stack = append(d.stack, dfsChoice{0, len(runnable)})
	d.pos++
	return 0
}

// next advances to the next schedule; false when the space is exhausted.
func (d *dfsEnum) next() bool {
	d.stack = d.stack[:d.pos]
	for len(d.stack) > 0 {
		top := &d.stack[len(d.stack)-1]
		if top.choice+1 < top.n {
			top.choice++
			d.pos = 0
			return true
		}
		d.stack = d.stack[:len(d.stack)-1]
	}
	return false
}

func (d *dfsEnum) decisions() []int {
	out := make([]int, len(d.stack))
	for i, c := range d.stack {
		out[i] = c.choice
	}
	return out
}
