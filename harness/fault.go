package harness

import (
	"bytes"
	"errors"
	"fmt"
	"io"
	"io/fs"
	"os"
	"path/filepath"
	"sort"
	"strings"
	"syscall"
	"testing/iotest"
)

// ---------------------------------------------------------------------------
// Fault injectors (DESIGN.md §2.5)
// ---------------------------------------------------------------------------

var errInjected = errors.New("verif: injected write failure")

// faultWriter is an io.Writer that starts failing at write call FailCall
// (0-based; <0 = never) or once Budget bytes have been accepted (<0 = never).
// Once = fail exactly one call, then accept again.
type faultWriter struct {
	FailCall int
	Budget   int
	Once     bool
	Err      error // what a failing call returns (nil = errInjected)

	Calls  int
	Bytes  int
	Failed int // number of failing calls
	Data   []byte
	Keep   bool
}

// faultErrors are the errors a failing destination returns, in rotation over the fault plans: an
// anonymous error, what a closed *os.File and a closed pipe return, a short write, a full disk.
var faultErrors = []error{errInjected, os.ErrClosed, &fs.PathError{Op: "write", Path: "snapshot.bin", Err: os.ErrClosed}, io.ErrClosedPipe, io.ErrShortWrite, syscall.ENOSPC}

func (w *faultWriter) fault() error {
	if w.Err != nil {
		return w.Err
	}
	return errInjected
}

func (w *faultWriter) Write(p []byte) (int, error) {
	call := w.Calls
	w.Calls++
	failNow := false
	if w.FailCall >= 0 && call >= w.FailCall {
		failNow = true
	}
	if w.Once && w.Failed > 0 {
		failNow = false
	}
	if failNow {
		w.Failed++
		return 0, w.fault()
	}
	if w.Budget >= 0 && w.Bytes+len(p) > w.Budget && !(w.Once && w.Failed > 0) {
		n := w.Budget - w.Bytes
		if n < 0 {
			n = 0
		}
		if w.Keep {
			w.Data = append(w.Data, p[:n]...)
		}
		w.Bytes += n
		w.Failed++
		return n, w.fault()
	}
	if w.Keep {
		w.Data = append(w.Data, p...)
	}
	w.Bytes += len(p)
	return len(p), nil
}

func (w *faultWriter) String() string {
	if w.Err != nil && w.Err != errInjected {
		e := w.Err
		w.Err = nil
		defer func() { w.Err = e }()
		return w.String() + fmt.Sprintf(" with %q", e.Error())
	}
	switch {
	case w.FailCall >= 0 && w.Once:
		return fmt.Sprintf("fail write call %d once", w.FailCall)
	case w.FailCall >= 0:
		return fmt.Sprintf("fail from write call %d on", w.FailCall)
	case w.Budget >= 0 && w.Once:
		return fmt.Sprintf("fail once after %d bytes", w.Budget)
	case w.Budget >= 0:
		return fmt.Sprintf("fail after %d bytes", w.Budget)
	}
	return "healthy writer"
}

// s2Frames returns the offsets at which s2/snappy stream frames start (each
// frame: 1 byte type + 3 bytes little-endian length), and the offsets of stream
// identifier frames (type 0xff), i.e. where a new s2 stream begins.
func s2Frames(data []byte) (frames []int, streams []int) {
	i := 0
	for i+4 <= len(data) {
		frames = append(frames, i)
		if data[i] == 0xff {
			streams = append(streams, i)
		}
		n := int(data[i+1]) | int(data[i+2])<<8 | int(data[i+3])<<16
		i += 4 + n
	}
	return
}

// tempLogState lists what Snapshot can leave behind: open descriptors of this
// process that point at column_*.log files, and such files in TMPDIR.
func tempLogState() (fds []string, files []string) {
	entries, _ := os.ReadDir("/proc/self/fd")
	for _, e := range entries {
		if target, err := os.Readlink(filepath.Join("/proc/self/fd", e.Name())); err == nil && strings.Contains(target, "column_") {
			fds = append(fds, target)
		}
	}
	sort.Strings(fds)
	tmp, _ := filepath.Glob(filepath.Join(os.TempDir(), "column_*.log"))
	sort.Strings(tmp)
	return fds, tmp
}

// patternReader hands out its data in pieces of 1, 2, 3, 5, 8, 13, 1, ... bytes.
type patternReader struct {
	data []byte
	i    int
}

func (p *patternReader) Read(dst []byte) (int, error) {
	if len(p.data) == 0 {
		return 0, io.EOF
	}
	n := []int{1, 2, 3, 5, 8, 13}[p.i%6]
	p.i++
	if n > len(dst) {
		n = len(dst)
	}
	if n > len(p.data) {
		n = len(p.data)
	}
	copy(dst, p.data[:n])
	p.data = p.data[n:]
	return n, nil
}

// deliver wraps encoded bytes in one of four legal io.Readers (chosen by the size and the variant,
// so that a case stays a pure function of its inputs): all at once, one byte per Read, pieces of a
// fixed pattern, or half of what is asked with the final data arriving together with io.EOF.
func deliver(b []byte, variant int) io.Reader {
	switch (len(b) + variant) % 4 {
	case 1:
		return iotest.OneByteReader(bytes.NewReader(b))
	case 2:
		return &patternReader{data: b}
	case 3:
		return iotest.DataErrReader(iotest.HalfReader(bytes.NewReader(b)))
	}
	return bytes.NewReader(b)
}
