package harness

import (
	"bytes"
	"fmt"
	"runtime"
	"strings"
	"sync"
	"sync/atomic"
	"testing"
	"time"

	"github.com/kelindar/column"
	"github.com/kelindar/column/commit"
	"pgregory.net/rapid"
)

// ---------------------------------------------------------------------------
// C18 — concurrent use is free of data races and deadlocks
//
// Generated concurrent programs run with real parallelism in a -race binary.
// The oracle for races is the race detector (its reports are parsed by the
// driver); the oracle for deadlocks is a watchdog on every goroutine. The
// harness itself shares nothing between goroutines except atomics/mutexes.
// ---------------------------------------------------------------------------

const (
	wGrow      = iota // transactions that insert many rows (new blocks appear)
	wPointRead        // QueryAt readers of every column kind
	wFiltered         // filtered iteration (index, typed filters, value filters)
	wAggregate        // Sum/Avg/Min/Max
	wInsDel           // insert + delete with offset reuse
	wSnapshot         // Snapshot to a buffer
	wRestore          // Restore of a snapshot into ANOTHER collection
	wIndex            // CreateIndex / DropIndex
	wKeys             // InsertKey / UpsertKey / QueryKey / DeleteKey
	wUpdate           // updates and merges on existing rows incl. enum, record, string
	wSortIndex        // CreateSortIndex / Ascend
	wKinds
)

var c18Names = [...]string{"grow", "pointRead", "filtered", "aggregate", "insertDelete", "snapshot", "restore", "index", "keys", "update", "sortIndex"}

func c18Collection(keyed bool) *column.Collection {
	c := column.NewCollection(column.Options{Capacity: 64, Vacuum: 5 * time.Millisecond})
	c.CreateColumn("n", column.ForInt())
	c.CreateColumn("f", column.ForFloat64())
	c.CreateColumn("s", column.ForString())
	c.CreateColumn("e", column.ForEnum())
	c.CreateColumn("b", column.ForBool())
	c.CreateColumn("r", column.ForRecord(func() *Rec { return new(Rec) }))
	if keyed {
		c.CreateColumn("pk", column.ForKey())
	}
	c.CreateIndex("big", "n", func(r column.Reader) bool { return r.Int() > 50 })
	return c
}

func TestC18Race(t *testing.T) {
	budget := time.Duration(envInt("VERIF_C18_MS", 400)) * time.Millisecond
	rapid.Check(t, func(t *rapid.T) {
		keyed := rapid.Bool().Draw(t, "keyed")
		nworkers := rapid.IntRange(4, 16).Draw(t, "workers")
		kinds := make([]int, nworkers)
		for i := range kinds {
			kinds[i] = rapid.IntRange(0, wKinds-1).Draw(t, "kind")
			if !keyed && kinds[i] == wKeys {
				kinds[i] = wInsDel
			}
			if keyed && (kinds[i] == wGrow || kinds[i] == wInsDel) {
				kinds[i] = wKeys
			}
		}
		// make sure the interesting overlaps exist in most programs
		kinds[0] = wGrow
		if keyed {
			kinds[0] = wKeys
		}
		kinds[1] = wPointRead
		kinds[2] = wSnapshot
		kinds[3] = wIndex
		c := c18Collection(keyed)
		defer c.Close()
		// initial rows
		c.Query(func(txn *column.Txn) error {
			for i := 0; i < 16300; i++ {
				body := func(r column.Row) error {
					r.SetInt("n", i)
					r.SetFloat64("f", float64(i))
					r.SetString("s", fmt.Sprint("s", i%5))
					r.SetEnum("e", fmt.Sprint("e", i%3))
					r.SetBool("b", i%2 == 0)
					return nil
				}
				if keyed {
					txn.InsertKey(fmt.Sprint("init", i), body)
				} else {
					txn.Insert(body)
				}
			}
			return nil
		})
		var grown, snapshots, indexBuilds, blocksAdded int64
		// Restore workers use a snapshot taken now, at a quiescent point: a snapshot taken while
		// index DDL runs can be internally inconsistent (declared column count vs. buffers written)
		// and Restore of such a stream may try to allocate a garbage length - outside C18.
		var quiet bytes.Buffer
		if err := c.Snapshot(&quiet); err != nil {
			t.Fatalf("initial snapshot: %v", err)
		}
		var lastSnap atomic.Value
		lastSnap.Store(quiet.Bytes())
		stop := make(chan struct{})
		var wg sync.WaitGroup
		done := make([]chan struct{}, nworkers)
		panics := make([]string, nworkers)
		for w := 0; w < nworkers; w++ {
			done[w] = make(chan struct{})
			wg.Add(1)
			go func(w int) {
				defer wg.Done()
				defer close(done[w])
				defer func() {
					if r := recover(); r != nil {
						buf := make([]byte, 1<<14)
						buf = buf[:runtime.Stack(buf, false)]
						panics[w] = fmt.Sprintf("%v\n%s", r, trimStack(string(buf)))
					}
				}()
				for i := 0; ; i++ {
					select {
					case <-stop:
						return
					default:
					}
					switch kinds[w] {
					case wGrow:
						n := 3000
						c.Query(func(txn *column.Txn) error {
							for k := 0; k < n; k++ {
								txn.Insert(func(r column.Row) error {
									r.SetInt("n", k)
									r.SetEnum("e", fmt.Sprint("g", (k+i)%50))
									r.SetString("s", "grow")
									return nil
								})
							}
							return nil
						})
						if c.Count() > 16400 {
							atomic.AddInt64(&blocksAdded, 1)
						}
						atomic.AddInt64(&grown, int64(n))
						if c.Count() > 40000 {
							c.Query(func(txn *column.Txn) error { txn.With("big").DeleteAll(); return nil })
							c.Query(func(txn *column.Txn) error {
								txn.WithInt("n", func(v int64) bool { return v > 10 }).DeleteAll()
								return nil
							})
						}
					case wPointRead:
						for k := uint32(0); k < 200; k++ {
							c.QueryAt(k*97%20000, func(r column.Row) error {
								r.Int("n")
								r.Float64("f")
								r.String("s")
								r.Enum("e")
								r.Bool("b")
								r.Record("r")
								r.Any("n")
								r.TTL()
								if keyed {
									r.Key()
								}
								return nil
							})
						}
					case wFiltered:
						c.Query(func(txn *column.Txn) error {
							txn.With("big").Union("b").WithInt("n", func(v int64) bool { return v%2 == 0 }).Count()
							txn.WithString("e", func(v string) bool { return v != "" }).WithValue("s", func(v any) bool { return v != nil })
							s := txn.String("s")
							e := txn.Enum("e")
							return txn.Range(func(idx uint32) { s.Get(); e.Get() })
						})
					case wAggregate:
						c.Query(func(txn *column.Txn) error {
							txn.Int("n").Sum()
							txn.Int("n").Avg()
							txn.Float64("f").Min()
							txn.With("big").Float64("f").Max()
							return nil
						})
					case wInsDel:
						off, err := c.Insert(func(r column.Row) error {
							r.SetInt("n", i)
							r.SetEnum("e", fmt.Sprint("x", i%100))
							r.SetRecord("r", &Rec{A: uint32(i), B: "rec"})
							r.SetTTL(time.Duration(i%3) * time.Millisecond)
							return nil
						})
						if err == nil && i%2 == 0 {
							c.DeleteAt(off)
						}
						switch i % 5 {
						case 1:
							// an insert whose row callback fails: the reserved offset is given back at once
							c.Insert(func(r column.Row) error { r.SetInt("n", i); return errStep })
						case 3:
							// a transaction that inserts and is rolled back: the offsets are released by the rollback
							c.Query(func(txn *column.Txn) error {
								txn.Insert(func(r column.Row) error { r.SetInt("n", i); return nil })
								txn.Insert(func(r column.Row) error { r.SetString("s", "gone"); return nil })
								return errRollback
							})
						}
					case wSnapshot:
						var buf bytes.Buffer
						if err := c.Snapshot(&buf); err == nil {
							atomic.AddInt64(&snapshots, 1)
						}
						// every Snapshot leaks the library's never-closed s2 writers (~1 MB): keep the rate low
						time.Sleep(60 * time.Millisecond)
					case wRestore:
						if snap := lastSnap.Load().([]byte); len(snap) > 0 {
							d := c18Collection(keyed)
							d.Restore(bytes.NewReader(snap))
							d.Close()
						}
					case wIndex:
						name := fmt.Sprint("ix", w)
						c.CreateIndex(name, "n", func(r column.Reader) bool { return r.Int()%3 == 0 })
						atomic.AddInt64(&indexBuilds, 1)
						c.Query(func(txn *column.Txn) error { txn.With(name).Count(); return nil })
						c.DropIndex(name)
					case wKeys:
						k := fmt.Sprint("k", (w*31+i)%200)
						switch i % 4 {
						case 0:
							c.InsertKey(k, func(r column.Row) error { r.SetInt("n", i); return nil })
						case 1:
							c.UpsertKey(k, func(r column.Row) error { r.MergeInt("n", 1); return nil })
						case 2:
							c.QueryKey(k, func(r column.Row) error { r.Int("n"); return nil })
						default:
							c.DeleteKey(k)
						}
					case wUpdate:
						// a record merge into a row of "this worker's" block (commits of different blocks run in parallel)
						c.QueryAt(uint32(w%3)<<14+uint32(i%64), func(r column.Row) error {
							if _, live := r.Int("n"); live {
								r.MergeRecord("r", &Rec{A: 1, B: "m"})
							}
							return nil
						})
						c.Query(func(txn *column.Txn) error {
							n := txn.Int("n")
							s := txn.String("s")
							e := txn.Enum("e")
							b := txn.Bool("b")
							cnt := 0
							return txn.With("b").Range(func(idx uint32) {
								cnt++
								if cnt > 300 {
									return
								}
								n.Merge(1)
								s.Set(fmt.Sprint("u", i%7))
								e.Set(fmt.Sprint("u", i%9))
								b.Set(true)
							})
						})
					case wSortIndex:
						name := fmt.Sprint("sorted", w)
						if c.CreateSortIndex(name, "s") == nil {
							c.Query(func(txn *column.Txn) error { return txn.With("b").Ascend(name, func(idx uint32) {}) })
							c.DropIndex(name)
						}
					}
				}
			}(w)
		}
		time.Sleep(budget)
		close(stop)
		// deadlock watchdog: every goroutine must come back
		for w := 0; w < nworkers; w++ {
			select {
			case <-done[w]:
			case <-after(time.Duration(envInt("VERIF_C18_WATCHDOG_S", 60)) * time.Second):
				buf := make([]byte, 64<<20)
				buf = buf[:runtime.Stack(buf, true)]
				var keep []string
				for _, g := range strings.Split(string(buf), "\n\n") {
					if strings.Contains(g, "kelindar/column") {
						keep = append(keep, g)
					}
				}
				t.Fatalf("C18-VIOLATION deadlock: worker %d (%s) did not terminate within the watchdog limit after the stop signal; workers=%v keyed=%v\nworker panics so far: %q\n=== goroutines inside kelindar/column ===\n%s", w, c18Names[kinds[w]], kinds, keyed, panics, strings.Join(keep, "\n\n"))
			}
		}
		wg.Wait()
		for w, p := range panics {
			if p != "" {
				// a crash under concurrency is reported with the race reports (it usually is one); it is not a deadlock
				CountLabel("C18", "worker-panics", 1)
				AddNote("C18", fmt.Sprintf("worker %s panicked: %s", c18Names[kinds[w]], p))
			}
		}
		names := make([]string, len(kinds))
		for i, k := range kinds {
			names[i] = c18Names[k]
		}
		nt := atomic.LoadInt64(&blocksAdded) > 0 && atomic.LoadInt64(&snapshots) > 0 && atomic.LoadInt64(&indexBuilds) > 0
		RecordCase("C18", fmt.Sprintf("keyed=%v workers=%v grown=%d snapshots=%d indexBuilds=%d", keyed, names, grown, snapshots, indexBuilds), nt, "race-run")
	})
}

// TestC18Targeted runs one small workload per listed race finding, so that each
// finding's KNOWN-FINDING line is reliable (and a repaired one is noticed).
func TestC18Targeted(t *testing.T) {
	dur := time.Duration(envInt("VERIF_C18_MS", 400)) * time.Millisecond
	run := func(name string, workers ...func(c *column.Collection, stop chan struct{})) {
		c := c18Collection(false)
		defer c.Close()
		c.Query(func(txn *column.Txn) error {
			for i := 0; i < 16500; i++ {
				txn.Insert(func(r column.Row) error {
					r.SetInt("n", i)
					r.SetString("s", fmt.Sprint("s", i%5))
					r.SetEnum("e", fmt.Sprint("e", i%3))
					r.SetBool("b", true)
					return nil
				})
			}
			return nil
		})
		stop := make(chan struct{})
		var wg sync.WaitGroup
		for _, w := range workers {
			wg.Add(1)
			go func(w func(c *column.Collection, stop chan struct{})) {
				defer wg.Done()
				defer func() { recover() }()
				w(c, stop)
			}(w)
		}
		time.Sleep(dur)
		close(stop)
		done := make(chan struct{})
		go func() { wg.Wait(); close(done) }()
		select {
		case <-done:
		case <-after(30 * time.Second):
			t.Fatalf("C18-VIOLATION deadlock: targeted workload %q did not terminate within 30 s", name)
		}
		RecordCase("C18", "targeted workload: "+name, true, "targeted")
	}
	loop := func(body func(c *column.Collection, i int)) func(c *column.Collection, stop chan struct{}) {
		return func(c *column.Collection, stop chan struct{}) {
			for i := 0; ; i++ {
				select {
				case <-stop:
					return
				default:
				}
				body(c, i)
			}
		}
	}
	run("sort index: commits vs Ascend",
		loop(func(c *column.Collection, i int) {
			if c.CreateSortIndex("sorted", "s") == nil {
				c.Query(func(txn *column.Txn) error { return txn.Ascend("sorted", func(uint32) {}) })
			}
		}),
		loop(func(c *column.Collection, i int) {
			c.QueryAt(uint32(i%100), func(r column.Row) error { r.SetString("s", fmt.Sprint("u", i%9)); return nil })
		}),
		loop(func(c *column.Collection, i int) {
			c.Query(func(txn *column.Txn) error { return txn.Ascend("sorted", func(uint32) {}) })
		}))
	run("column growth vs point reads",
		loop(func(c *column.Collection, i int) {
			c.Query(func(txn *column.Txn) error {
				for k := 0; k < 17000; k++ {
					txn.Insert(func(r column.Row) error { r.SetInt("n", k); return nil })
				}
				return nil
			})
		}),
		loop(func(c *column.Collection, i int) {
			c.QueryAt(uint32(i%50), func(r column.Row) error { r.Int("n"); r.String("s"); r.Bool("b"); r.Enum("e"); return nil })
		}))
	run("enum dictionary: commits in block 0 vs readers of block 1",
		loop(func(c *column.Collection, i int) {
			c.QueryAt(uint32(i%100), func(r column.Row) error { r.SetEnum("e", fmt.Sprint("new", i)); return nil })
		}),
		loop(func(c *column.Collection, i int) {
			c.QueryAt(16384+uint32(i%100), func(r column.Row) error { r.Enum("e"); return nil })
		}))
	run("index DDL vs transactions",
		loop(func(c *column.Collection, i int) {
			c.CreateIndex("ixt", "n", func(r column.Reader) bool { return r.Int()%2 == 0 })
			c.DropIndex("ixt")
		}),
		loop(func(c *column.Collection, i int) {
			c.QueryAt(uint32(i%100), func(r column.Row) error { r.MergeInt("n", 1); return nil })
		}),
		loop(func(c *column.Collection, i int) {
			c.Query(func(txn *column.Txn) error { txn.With("big").Count(); return nil })
		}))
	// the two workloads below do not belong to a listed finding: they aim at narrowed locks around
	// block growth and around index builds (reads of an index through the Go read paths - the
	// bitmap kernels behind With/Without/Union are assembly and invisible to the race detector)
	run("block growth vs commits on existing blocks",
		loop(func(c *column.Collection, i int) {
			c.Query(func(txn *column.Txn) error {
				for k := 0; k < 17000; k++ {
					txn.Insert(func(r column.Row) error { r.SetInt("n", k); return nil })
				}
				return nil
			})
			if c.Count() > 400000 {
				c.Query(func(txn *column.Txn) error {
					txn.WithInt("n", func(v int64) bool { return v > 100 }).DeleteAll()
					return nil
				})
			}
		}),
		loop(func(c *column.Collection, i int) {
			c.QueryAt(uint32(i%100), func(r column.Row) error { r.MergeInt("n", 1); return nil })
		}),
		loop(func(c *column.Collection, i int) {
			c.QueryAt(16384+uint32(i%100), func(r column.Row) error { r.SetInt("n", i); return nil })
		}),
		loop(func(c *column.Collection, i int) {
			var buf bytes.Buffer
			c.Snapshot(&buf)
			time.Sleep(40 * time.Millisecond)
		}))
	run("record merges committed into different blocks at the same time",
		loop(func(c *column.Collection, i int) {
			c.QueryAt(uint32(i%200), func(r column.Row) error { r.MergeRecord("r", &Rec{A: 1, B: "x"}); return nil })
		}),
		loop(func(c *column.Collection, i int) {
			c.QueryAt(16384+uint32(i%100), func(r column.Row) error { r.MergeRecord("r", &Rec{A: 2, C: 3}); return nil })
		}),
		loop(func(c *column.Collection, i int) {
			c.QueryAt(uint32(i%200), func(r column.Row) error { r.Record("r"); return nil })
		}))
	{
		// a primary whose change stream is a commit.Channel, consumed by a goroutine that replays into a
		// replica while transactions go on (alternating between two blocks, so that the pooled pages of
		// the transactions keep changing their first section header)
		ch := make(commit.Channel, 4096)
		p := column.NewCollection(column.Options{Capacity: 64, Vacuum: 24 * 3600 * 1e9, Writer: ch})
		p.CreateColumn("n", column.ForInt())
		p.CreateColumn("s", column.ForString())
		rep := column.NewCollection(column.Options{Capacity: 64, Vacuum: 24 * 3600 * 1e9})
		rep.CreateColumn("n", column.ForInt())
		rep.CreateColumn("s", column.ForString())
		p.Query(func(txn *column.Txn) error {
			for i := 0; i < 16500; i++ {
				txn.Insert(func(r column.Row) error { r.SetInt("n", i); return nil })
			}
			return nil
		})
		stop := make(chan struct{})
		var wg sync.WaitGroup
		wg.Add(3)
		go func() {
			defer wg.Done()
			for {
				select {
				case cm := <-ch:
					rep.Replay(cm)
				case <-stop:
					return
				}
			}
		}()
		for w := 0; w < 2; w++ {
			go func(w int) {
				defer wg.Done()
				for i := 0; ; i++ {
					select {
					case <-stop:
						return
					default:
					}
					row := uint32(i%2)<<14 + uint32((i*7+w)%100)
					p.QueryAt(row, func(r column.Row) error { r.SetInt("n", i); r.SetString("s", fmt.Sprint("v", i%13)); return nil })
				}
			}(w)
		}
		time.Sleep(dur)
		close(stop)
		done := make(chan struct{})
		go func() { wg.Wait(); close(done) }()
		select {
		case <-done:
		case <-after(30 * time.Second):
			t.Fatalf("C18-VIOLATION deadlock: targeted workload %q did not terminate within 30 s", "channel stream consumed by a replaying goroutine")
		}
		p.Close()
		rep.Close()
		RecordCase("C18", "targeted workload: channel stream consumed by a replaying goroutine", true, "targeted")
	}
	run("failing and rolled-back inserts beside each other and beside selections",
		loop(func(c *column.Collection, i int) {
			c.Insert(func(r column.Row) error { r.SetInt("n", i); return errStep })
		}),
		loop(func(c *column.Collection, i int) {
			c.Insert(func(r column.Row) error { r.SetInt("n", i); return errStep })
		}),
		loop(func(c *column.Collection, i int) {
			c.Query(func(txn *column.Txn) error {
				txn.Insert(func(r column.Row) error { r.SetInt("n", i); return nil })
				return errRollback
			})
		}),
		loop(func(c *column.Collection, i int) {
			c.Query(func(txn *column.Txn) error {
				txn.Insert(func(r column.Row) error { r.SetInt("n", i); return nil })
				return errRollback
			})
		}),
		loop(func(c *column.Collection, i int) {
			c.Query(func(txn *column.Txn) error { txn.Count(); return nil })
		}),
		loop(func(c *column.Collection, i int) {
			off, err := c.Insert(func(r column.Row) error { r.SetInt("n", i); return nil })
			if err == nil {
				c.DeleteAt(off)
			}
		}))
	// Readers use the index only while it is registered (a typed accessor on a missing column is a
	// documented panic): they start at the first call of the index rule - i.e. while the build is
	// still running - and the drop waits for them behind a harness gate.
	var active int32
	var gate sync.RWMutex
	reading := func(body func(c *column.Collection, i int)) func(c *column.Collection, stop chan struct{}) {
		return loop(func(c *column.Collection, i int) {
			gate.RLock()
			if atomic.LoadInt32(&active) == 1 {
				body(c, i)
			}
			gate.RUnlock()
		})
	}
	run("index build vs readers of that index (Go read paths)",
		loop(func(c *column.Collection, i int) {
			var first int32
			c.CreateIndex("ixr", "n", func(r column.Reader) bool {
				if atomic.CompareAndSwapInt32(&first, 0, 1) {
					atomic.StoreInt32(&active, 1)
				}
				return r.Int()%2 == 0
			})
			time.Sleep(time.Millisecond)
			gate.Lock()
			atomic.StoreInt32(&active, 0)
			c.DropIndex("ixr")
			gate.Unlock()
		}),
		reading(func(c *column.Collection, i int) {
			c.QueryAt(uint32(i*37%16500), func(r column.Row) error { r.Bool("ixr"); r.Bool("big"); return nil })
		}),
		reading(func(c *column.Collection, i int) {
			c.Query(func(txn *column.Txn) error {
				ix := txn.Bool("ixr")
				n := 0
				return txn.With("b").Range(func(idx uint32) {
					if n++; n < 2000 {
						ix.Get()
					}
				})
			})
		}),
		reading(func(c *column.Collection, i int) {
			c.Query(func(txn *column.Txn) error {
				txn.WithValue("ixr", func(v any) bool { return v != nil }).Count()
				return nil
			})
		}))
}

// TestC18ManyBlocks (plain binary, no race detector needed): the block latch has 128 shards, so
// block b and block b+128 share one. A collection of a little more than 128 blocks is built, an
// index and a transaction spanning two blocks of one shard must terminate, and the index must be
// right. One goroutine only: a call that does not return is a lock taken twice or never released.
func TestC18ManyBlocks(t *testing.T) {
	const blocks = 130
	n := (blocks-1)*16384 + 100
	stop := Watchdog("C18", fmt.Sprintf("building, indexing and updating a collection of %d blocks (latch shards alias from block 128 on)", blocks), 90*time.Second, nil)
	defer stop()
	c := column.NewCollection(column.Options{Capacity: 1024, Vacuum: 24 * 3600 * 1e9})
	defer c.Close()
	c.CreateColumn("n", column.ForInt())
	c.Query(func(txn *column.Txn) error {
		for i := 0; i < n; i++ {
			txn.Insert(func(r column.Row) error { r.SetInt("n", i%100); return nil })
		}
		return nil
	})
	if err := c.CreateIndex("big", "n", func(r column.Reader) bool { return r.Int() >= 50 }); err != nil {
		t.Fatal(err)
	}
	want := 0
	for i := 0; i < n; i++ {
		if i%100 >= 50 {
			want++
		}
	}
	got := 0
	c.Query(func(txn *column.Txn) error { got = txn.With("big").Count(); return nil })
	if got != want {
		t.Fatalf("C03 violated (index over %d blocks): With(big) selects %d rows, predicate holds for %d", blocks, got, want)
	}
	// one transaction writing block 0 and block 128 (same latch shard), then one reading both
	c.Query(func(txn *column.Txn) error {
		txn.QueryAt(5, func(r column.Row) error { r.SetInt("n", 99); return nil })
		txn.QueryAt(128<<14+5, func(r column.Row) error { r.SetInt("n", 99); return nil })
		txn.QueryAt(129<<14+5, func(r column.Row) error { r.MergeInt("n", 1); return nil })
		return nil
	})
	var a, b int
	c.Query(func(txn *column.Txn) error {
		txn.QueryAt(5, func(r column.Row) error { a, _ = r.Int("n"); return nil })
		return txn.QueryAt(128<<14+5, func(r column.Row) error { b, _ = r.Int("n"); return nil })
	})
	if a != 99 || b != 99 {
		t.Fatalf("C01 violated (blocks 0 and 128 share a latch shard): rows 5 and %d read %d and %d after both were set to 99 in one transaction", 128<<14+5, a, b)
	}
	var buf bytes.Buffer
	if err := c.Snapshot(&buf); err != nil {
		t.Fatalf("Snapshot of %d blocks: %v", blocks, err)
	}
	c.DropIndex("big")
	if err := c.CreateSortIndex("sorted", "n"); err == nil {
		t.Log("sort index over a numeric column accepted")
	}
	RecordCase("C18", fmt.Sprintf("many blocks: %d blocks, index build, two-block transaction on one latch shard, snapshot", blocks), true, "latch-shard-aliasing")
}
