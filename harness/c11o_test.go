package harness

import (
	"fmt"
	"sort"
	"strings"
	"testing"

	"github.com/kelindar/column"
	"pgregory.net/rapid"
)

// TestC11Orphans: DropColumn of a value column leaves the bitmap and sort indexes that were built
// on it registered and queryable (nothing feeds them any more). They are still part of what a row
// "exposes": Row.Bool(index), txn.With(index), txn.Ascend(sortIndex). A row inserted AFTER the
// drop never stored anything such an index could have seen, so - by the last sentence of C11 - it
// must not be selected by it, also not when it re-uses the offset of a row that was selected.
//
// Oracle: per offset a generation counter (one per insert). When a column is dropped the members
// of its indexes are frozen together with their generations; afterwards whatever such an index
// selects must be a frozen member whose generation is unchanged. Indexes on live columns must
// select exactly the rows whose own stored value satisfies the rule (nothing left behind there
// either). non-trivial = an offset that an orphaned index selected at the drop was deleted, re-used
// by a later insert and then looked at through that index.
func TestC11Orphans(t *testing.T) {
	rapid.Check(t, func(t *rapid.T) {
		capacity := rapid.SampledFrom(capacities).Draw(t, "capacity")
		c := column.NewCollection(column.Options{Capacity: capacity, Vacuum: 24 * 3600 * 1e9})
		defer c.Close()
		c.CreateColumn("keep", column.ForInt())
		type rowM struct {
			a    *int
			b    *string
			gen  int
			born int // DDL epoch of the insert
		}
		type idx struct {
			name   string
			col    string
			sorted bool
			orphan bool
			frozen map[uint32]int // offset -> generation at drop time
		}
		liveCol := map[string]bool{}
		rows := map[uint32]*rowM{}
		gens := map[uint32]int{}
		var indexes []*idx
		nameCtr, epoch := 0, 0
		reusedOrphanMember, looked := map[string]bool{}, false
		var trace []string
		logf := func(f string, a ...interface{}) { trace = append(trace, fmt.Sprintf(f, a...)) }
		fail := func(f string, a ...interface{}) {
			t.Fatalf("C11 violated: %s\nhistory:\n  %s", fmt.Sprintf(f, a...), strings.Join(trace, "\n  "))
		}
		createCol := func(name string) {
			if name == "a" {
				c.CreateColumn("a", column.ForInt())
			} else {
				c.CreateColumn("b", column.ForString())
			}
			liveCol[name] = true
			epoch++
			logf("createColumn %s", name)
		}
		createCol("a")
		createCol("b")
		member := func(ix *idx, r *rowM) bool {
			switch {
			case ix.col == "a":
				return r.a != nil && *r.a%2 == 1
			case ix.sorted:
				return r.b != nil
			default:
				return r.b != nil && strings.HasPrefix(*r.b, "x")
			}
		}
		sortedOffsets := func() []uint32 {
			out := make([]uint32, 0, len(rows))
			for off := range rows {
				out = append(out, off)
			}
			sort.Slice(out, func(i, j int) bool { return out[i] < out[j] })
			return out
		}
		check := func() {
			for _, ix := range indexes {
				got := map[uint32]bool{}
				c.Query(func(txn *column.Txn) error {
					if ix.sorted {
						return txn.Ascend(ix.name, func(off uint32) { got[off] = true })
					}
					return txn.With(ix.name).Range(func(off uint32) { got[off] = true })
				})
				if !ix.sorted {
					// the point read must agree with the filter
					c.Query(func(txn *column.Txn) error {
						for off := range rows {
							off := off
							txn.QueryAt(off, func(r column.Row) error {
								if r.Bool(ix.name) != got[off] {
									fail("row %d: Row.Bool(%q)=%v but txn.With(%q) selects it: %v", off, ix.name, r.Bool(ix.name), ix.name, got[off])
								}
								return nil
							})
						}
						return nil
					})
				}
				if ix.orphan {
					for off := range got {
						g, was := ix.frozen[off]
						r := rows[off]
						if r == nil {
							fail("index %q (its column %q was dropped) selects offset %d, which holds no live row", ix.name, ix.col, off)
						}
						if !was || g != r.gen {
							fail("index %q (its column %q was dropped before this row was inserted) selects row %d (generation %d; frozen member: %v, generation %d): the row exposes what a previous occupant of the offset left behind",
								ix.name, ix.col, off, r.gen, was, g)
						}
					}
					if reusedOrphanMember[ix.name] {
						looked = true
					}
					continue
				}
				want := map[uint32]bool{}
				for off, r := range rows {
					if member(ix, r) {
						want[off] = true
					}
				}
				if d := diffSets(got, want); d != "" {
					fail("index %q on live column %q: %s", ix.name, ix.col, d)
				}
			}
			if c.Count() != len(rows) {
				fail("Count()=%d, %d live rows", c.Count(), len(rows))
			}
		}
		t.Repeat(map[string]func(*rapid.T){
			"insert": func(t *rapid.T) {
				n := rapid.SampledFrom([]int{1, 2, 5, 40}).Draw(t, "n")
				type plan struct {
					a *int
					b *string
				}
				plans := make([]plan, n)
				for i := range plans {
					if liveCol["a"] && rapid.IntRange(0, 3).Draw(t, "set-a") != 0 {
						v := rapid.IntRange(0, 9).Draw(t, "a")
						plans[i].a = &v
					}
					if liveCol["b"] && rapid.IntRange(0, 3).Draw(t, "set-b") != 0 {
						v := rapid.SampledFrom([]string{"x1", "x2", "y1", "y2", ""}).Draw(t, "b")
						plans[i].b = &v
					}
				}
				var offs []uint32
				c.Query(func(txn *column.Txn) error {
					for _, p := range plans {
						p := p
						off, _ := txn.Insert(func(r column.Row) error {
							r.SetInt("keep", 1)
							if p.a != nil {
								r.SetInt("a", *p.a)
							}
							if p.b != nil {
								r.SetString("b", *p.b)
							}
							return nil
						})
						offs = append(offs, off)
					}
					return nil
				})
				for i, off := range offs {
					if rows[off] != nil {
						fail("insert received offset %d, which holds a live row", off)
					}
					gens[off]++
					rows[off] = &rowM{a: plans[i].a, b: plans[i].b, gen: gens[off], born: epoch}
					for _, ix := range indexes {
						if _, was := ix.frozen[off]; ix.orphan && was {
							reusedOrphanMember[ix.name] = true
						}
					}
				}
				logf("insert %d rows -> %v", n, offs)
			},
			"delete": func(t *rapid.T) {
				offs := sortedOffsets()
				if len(offs) == 0 {
					t.Skip("no rows")
				}
				var del []uint32
				switch rapid.IntRange(0, 2).Draw(t, "how") {
				case 0:
					del = append(del, offs[rapid.IntRange(0, len(offs)-1).Draw(t, "row")])
				case 1:
					for i, off := range offs {
						if i%2 == 0 {
							del = append(del, off)
						}
					}
				default:
					del = offs
				}
				c.Query(func(txn *column.Txn) error {
					for _, off := range del {
						txn.DeleteAt(off)
					}
					return nil
				})
				for _, off := range del {
					delete(rows, off)
				}
				logf("delete %v", del)
			},
			"createIndex": func(t *rapid.T) {
				var cands []string
				for _, n := range []string{"a", "b"} {
					if liveCol[n] {
						cands = append(cands, n)
					}
				}
				if len(cands) == 0 || len(indexes) >= 6 {
					t.Skip("no column / enough indexes")
				}
				col := rapid.SampledFrom(cands).Draw(t, "col")
				ix := &idx{col: col, sorted: col == "b" && rapid.Bool().Draw(t, "sorted")}
				nameCtr++
				ix.name = fmt.Sprintf("ix%d_%s", nameCtr, col)
				var err error
				switch {
				case ix.sorted:
					err = c.CreateSortIndex(ix.name, col)
				case col == "a":
					err = c.CreateIndex(ix.name, col, func(r column.Reader) bool { return r.Int()%2 == 1 })
				default:
					err = c.CreateIndex(ix.name, col, func(r column.Reader) bool { return strings.HasPrefix(r.String(), "x") })
				}
				if err != nil {
					fail("CreateIndex(%q on %q): %v", ix.name, col, err)
				}
				indexes = append(indexes, ix)
				logf("createIndex %s on %s sorted=%v", ix.name, col, ix.sorted)
			},
			"dropColumn": func(t *rapid.T) {
				var cands []string
				for _, n := range []string{"a", "b"} {
					if liveCol[n] {
						cands = append(cands, n)
					}
				}
				if len(cands) == 0 {
					t.Skip("nothing to drop")
				}
				col := rapid.SampledFrom(cands).Draw(t, "col")
				c.DropColumn(col)
				liveCol[col] = false
				epoch++
				for _, ix := range indexes {
					if ix.col == col && !ix.orphan {
						ix.orphan = true
						ix.frozen = map[uint32]int{}
						for off, r := range rows {
							if member(ix, r) {
								ix.frozen[off] = r.gen
							}
						}
					}
				}
				for _, r := range rows {
					if col == "a" {
						r.a = nil
					} else {
						r.b = nil
					}
				}
				logf("dropColumn %s", col)
			},
			"recreateColumn": func(t *rapid.T) {
				for _, n := range []string{"a", "b"} {
					if !liveCol[n] {
						createCol(n)
						return
					}
				}
				t.Skip("both columns live")
			},
			"": func(t *rapid.T) { check() },
		})
		check()
		labels := []string{}
		orphans := 0
		for _, ix := range indexes {
			if ix.orphan {
				orphans++
			}
		}
		if orphans > 0 {
			labels = append(labels, "orphaned-index")
		}
		if looked {
			labels = append(labels, "orphan-member-offset-reused")
		}
		RecordCase("C11", "orphans: "+strings.Join(trace, "; "), looked, labels...)
	})
}
