package harness

import (
	"errors"
	"fmt"
	"math"

	"github.com/kelindar/column"
)

// ---------------------------------------------------------------------------
// Adapter: executes model-level operations against a real collection and reads
// state back through the public readers (DESIGN.md §2.2).
// ---------------------------------------------------------------------------

var (
	errRollback  = errors.New("verif: generated rollback")
	errBodyPanic = errors.New("verif: generated panic of a transaction body")
	errStep      = errors.New("verif: generated callback failure")
)

// Writer paths (Store.Via)
const (
	ViaRow    = 0 // Row.SetX / Row.MergeX
	ViaTxn    = 1 // txn.X(col).Set / .Merge at the cursor
	ViaAny    = 2 // Row.SetAny (puts only)
	ViaMany   = 3 // Row.SetMany with a one-entry map (puts only)
	ViaTxnAny = 4 // txn.Any(col).Set (puts only)
	numVias   = 5
)

func goValue(k Kind, v Value) any {
	switch k {
	case KInt:
		return int(int64(v.B))
	case KInt16:
		return int16(v.B)
	case KInt32:
		return int32(v.B)
	case KInt64:
		return int64(v.B)
	case KUint:
		return uint(v.B)
	case KUint16:
		return uint16(v.B)
	case KUint32:
		return uint32(v.B)
	case KUint64:
		return v.B
	case KFloat32:
		return math.Float32frombits(uint32(v.B))
	case KFloat64:
		return math.Float64frombits(v.B)
	case KBool:
		return v.B != 0
	case KRecord:
		r := new(Rec)
		if err := r.UnmarshalBinary([]byte(v.S)); err != nil {
			panic(err)
		}
		return r
	}
	return v.S
}

func fromGoValue(k Kind, x any) (Value, error) {
	bad := func() (Value, error) { return Value{}, fmt.Errorf("reader returned %T for a %s column", x, k) }
	switch k {
	case KInt:
		if v, ok := x.(int); ok {
			return Value{B: uint64(int64(v))}, nil
		}
	case KInt16:
		if v, ok := x.(int16); ok {
			return Value{B: uint64(int64(v))}, nil
		}
	case KInt32:
		if v, ok := x.(int32); ok {
			return Value{B: uint64(int64(v))}, nil
		}
	case KInt64:
		if v, ok := x.(int64); ok {
			return Value{B: uint64(v)}, nil
		}
	case KUint:
		if v, ok := x.(uint); ok {
			return Value{B: uint64(v)}, nil
		}
	case KUint16:
		if v, ok := x.(uint16); ok {
			return Value{B: uint64(v)}, nil
		}
	case KUint32:
		if v, ok := x.(uint32); ok {
			return Value{B: uint64(v)}, nil
		}
	case KUint64:
		if v, ok := x.(uint64); ok {
			return Value{B: v}, nil
		}
	case KFloat32:
		if v, ok := x.(float32); ok {
			return Value{B: uint64(math.Float32bits(v))}, nil
		}
	case KFloat64:
		if v, ok := x.(float64); ok {
			return Value{B: math.Float64bits(v)}, nil
		}
	case KBool:
		if v, ok := x.(bool); ok {
			if v {
				return Value{B: 1}, nil
			}
			return Value{}, nil
		}
	case KRecord:
		if v, ok := x.(*Rec); ok {
			b, _ := v.MarshalBinary()
			return Value{S: string(b)}, nil
		}
	default:
		if v, ok := x.(string); ok {
			return Value{S: v}, nil
		}
	}
	return bad()
}

// writeStore issues one store on the row the transaction cursor is on.
func writeStore(txn *column.Txn, r column.Row, cs ColSpec, st Store) {
	name := cs.Name
	via := st.Via
	if st.Merge && (via == ViaAny || via == ViaMany || via == ViaTxnAny) {
		via = ViaRow
	}
	if cs.Kind == KKey {
		panic("key column is written through SetKey / InsertKey / UpsertKey only")
	}
	switch via {
	case ViaAny:
		r.SetAny(name, goValue(cs.Kind, st.Val))
		return
	case ViaTxnAny:
		if err := txn.Any(name).Set(goValue(cs.Kind, st.Val)); err != nil {
			panic(fmt.Sprintf("txn.Any(%s).Set: %v", name, err))
		}
		return
	case ViaMany:
		if err := r.SetMany(map[string]any{name: goValue(cs.Kind, st.Val)}); err != nil {
			panic(fmt.Sprintf("SetMany(%s): %v", name, err))
		}
		return
	}
	viaTxn := via == ViaTxn
	b := st.Val.B
	switch cs.Kind {
	case KInt:
		v := int(int64(b))
		switch {
		case viaTxn && st.Merge:
			txn.Int(name).Merge(v)
		case viaTxn:
			txn.Int(name).Set(v)
		case st.Merge:
			r.MergeInt(name, v)
		default:
			r.SetInt(name, v)
		}
	case KInt16:
		v := int16(b)
		switch {
		case viaTxn && st.Merge:
			txn.Int16(name).Merge(v)
		case viaTxn:
			txn.Int16(name).Set(v)
		case st.Merge:
			r.MergeInt16(name, v)
		default:
			r.SetInt16(name, v)
		}
	case KInt32:
		v := int32(b)
		switch {
		case viaTxn && st.Merge:
			txn.Int32(name).Merge(v)
		case viaTxn:
			txn.Int32(name).Set(v)
		case st.Merge:
			r.MergeInt32(name, v)
		default:
			r.SetInt32(name, v)
		}
	case KInt64:
		v := int64(b)
		switch {
		case viaTxn && st.Merge:
			txn.Int64(name).Merge(v)
		case viaTxn:
			txn.Int64(name).Set(v)
		case st.Merge:
			r.MergeInt64(name, v)
		default:
			r.SetInt64(name, v)
		}
	case KUint:
		v := uint(b)
		switch {
		case viaTxn && st.Merge:
			txn.Uint(name).Merge(v)
		case viaTxn:
			txn.Uint(name).Set(v)
		case st.Merge:
			r.MergeUint(name, v)
		default:
			r.SetUint(name, v)
		}
	case KUint16:
		v := uint16(b)
		switch {
		case viaTxn && st.Merge:
			txn.Uint16(name).Merge(v)
		case viaTxn:
			txn.Uint16(name).Set(v)
		case st.Merge:
			r.MergeUint16(name, v)
		default:
			r.SetUint16(name, v)
		}
	case KUint32:
		v := uint32(b)
		switch {
		case viaTxn && st.Merge:
			txn.Uint32(name).Merge(v)
		case viaTxn:
			txn.Uint32(name).Set(v)
		case st.Merge:
			r.MergeUint32(name, v)
		default:
			r.SetUint32(name, v)
		}
	case KUint64:
		v := b
		switch {
		case viaTxn && st.Merge:
			txn.Uint64(name).Merge(v)
		case viaTxn:
			txn.Uint64(name).Set(v)
		case st.Merge:
			r.MergeUint64(name, v)
		default:
			r.SetUint64(name, v)
		}
	case KFloat32:
		v := math.Float32frombits(uint32(b))
		switch {
		case viaTxn && st.Merge:
			txn.Float32(name).Merge(v)
		case viaTxn:
			txn.Float32(name).Set(v)
		case st.Merge:
			r.MergeFloat32(name, v)
		default:
			r.SetFloat32(name, v)
		}
	case KFloat64:
		v := math.Float64frombits(b)
		switch {
		case viaTxn && st.Merge:
			txn.Float64(name).Merge(v)
		case viaTxn:
			txn.Float64(name).Set(v)
		case st.Merge:
			r.MergeFloat64(name, v)
		default:
			r.SetFloat64(name, v)
		}
	case KBool:
		if viaTxn {
			txn.Bool(name).Set(b != 0)
		} else {
			r.SetBool(name, b != 0)
		}
	case KString:
		switch {
		case viaTxn && st.Merge:
			txn.String(name).Merge(st.Val.S)
		case viaTxn:
			txn.String(name).Set(st.Val.S)
		case st.Merge:
			r.MergeString(name, st.Val.S)
		default:
			r.SetString(name, st.Val.S)
		}
	case KEnum:
		if viaTxn {
			txn.Enum(name).Set(st.Val.S)
		} else {
			r.SetEnum(name, st.Val.S)
		}
	case KRecord:
		rec := goValue(KRecord, st.Val).(*Rec)
		var err error
		switch {
		case viaTxn && st.Merge:
			err = txn.Record(name).Merge(rec)
		case viaTxn:
			err = txn.Record(name).Set(rec)
		case st.Merge:
			err = r.MergeRecord(name, rec)
		default:
			err = r.SetRecord(name, rec)
		}
		if err != nil {
			panic(fmt.Sprintf("record write: %v", err))
		}
	}
}

// execTxn runs a generated transaction against the collection.
func execTxn(c *column.Collection, sch *Schema, live []bool, t TxnSpec) ([]StepResult, error) {
	return execTxnObs(c, sch, live, t, nil)
}

// execTxnObs is execTxn with an observer that runs inside the transaction body
// after each step (no lock is held there).
func execTxnObs(c *column.Collection, sch *Schema, live []bool, t TxnSpec, obs func(i int, txn *column.Txn, res []StepResult)) ([]StepResult, error) {
	res := make([]StepResult, len(t.Steps))
	var err error
	func() {
		defer func() {
			if t.Panic {
				if p := recover(); p != nil {
					if p != any(errBodyPanic) {
						panic(p)
					}
					err = errBodyPanic
				}
			}
		}()
		err = c.Query(func(txn *column.Txn) error {
			if t.Prefilter > 0 && (live == nil || live[t.Prefilter-1]) {
				if n := txn.WithValue(sch.Cols[t.Prefilter-1].Name, func(interface{}) bool { return false }).Count(); n != 0 {
					panic(fmt.Sprintf("a filter that accepts nothing selects %d rows", n))
				}
			}
			for i := range t.Steps {
				execStep(txn, sch, live, t.Steps, i, res)
				if obs != nil {
					obs(i, txn, res)
				}
				if t.FailAt == i {
					if t.Panic {
						panic(errBodyPanic)
					}
					return errRollback
				}
			}
			for _, ci := range t.Touch {
				if live == nil || live[ci] {
					_, _ = readCell(txn, column.Row{}, sch.Cols[ci], ReadTxnTyped)
				}
			}
			return nil
		})
	}()
	return res, err
}

func execStep(txn *column.Txn, sch *Schema, live []bool, steps []Step, i int, res []StepResult) {
	st := steps[i]
	r := &res[i]
	body := func(row column.Row) error {
		r.Ran = true
		r.Offset = row.Index()
		for _, s := range st.Stores {
			if live != nil && !live[s.Col] {
				continue
			}
			writeStore(txn, row, sch.Cols[s.Col], s)
		}
		if st.AlsoKey != "" {
			if err := txn.Key().Set(st.AlsoKey); err != nil {
				panic(fmt.Sprintf("SetKey(%q) inside the callback of InsertKey(%q): %v", st.AlsoKey, st.Key, err))
			}
		}
		if st.HasPeek {
			_ = txn.QueryAt(st.Peek, func(pr column.Row) error { _ = pr.Index(); return nil })
		}
		if st.Fail {
			return errStep
		}
		return nil
	}
	switch st.Kind {
	case SUpdate:
		r.Err = txn.QueryAt(st.Row, body) != nil
	case SOwnUpdate:
		r.Err = txn.QueryAt(res[st.Row].Offset, body) != nil
	case SDelete:
		r.Deleted = txn.DeleteAt(st.Row)
	case SInsert:
		off, err := txn.Insert(body)
		r.Err = err != nil
		if r.Ran && off != r.Offset {
			panic(fmt.Sprintf("Insert returned offset %d but its callback ran on row %d", off, r.Offset))
		}
		r.Offset = off
	case SInsertKey:
		r.Err = txn.InsertKey(st.Key, body) != nil
	case SUpsertKey:
		r.Err = txn.UpsertKey(st.Key, body) != nil
	case SQueryKey:
		r.Err = txn.QueryKey(st.Key, body) != nil
	case SDeleteKey:
		r.Err = txn.DeleteKey(st.Key) != nil
	case SSetKey:
		_ = txn.QueryAt(st.Row, func(row column.Row) error {
			r.Ran = true
			r.Offset = row.Index()
			r.Err = txn.Key().Set(st.Key) != nil
			return nil
		})
	}
}

// execDirect runs a single-step transaction through the collection-level
// convenience methods (Insert, QueryAt, DeleteAt, InsertKey, ...).
func execDirect(c *column.Collection, sch *Schema, live []bool, t TxnSpec) ([]StepResult, error, bool) {
	if len(t.Steps) != 1 || t.FailAt >= 0 || t.Steps[0].HasPeek || t.Steps[0].AlsoKey != "" || len(t.Touch) > 0 || t.Prefilter > 0 {
		return nil, nil, false
	}
	st := t.Steps[0]
	res := make([]StepResult, 1)
	r := &res[0]
	var txnRef *column.Txn
	_ = txnRef
	body := func(row column.Row) error {
		r.Ran = true
		r.Offset = row.Index()
		for _, s := range st.Stores {
			if live != nil && !live[s.Col] {
				continue
			}
			if s.Via == ViaTxn || s.Via == ViaTxnAny {
				s.Via = ViaRow
			}
			writeStore(nil, row, sch.Cols[s.Col], s)
		}
		if st.Fail {
			return errStep
		}
		return nil
	}
	switch st.Kind {
	case SUpdate:
		r.Err = c.QueryAt(st.Row, body) != nil
	case SDelete:
		r.Deleted = c.DeleteAt(st.Row)
	case SInsert:
		off, err := c.Insert(body)
		r.Err = err != nil
		r.Offset = off
	case SInsertKey:
		r.Err = c.InsertKey(st.Key, body) != nil
	case SUpsertKey:
		r.Err = c.UpsertKey(st.Key, body) != nil
	case SQueryKey:
		r.Err = c.QueryKey(st.Key, body) != nil
	case SDeleteKey:
		r.Err = c.DeleteKey(st.Key) != nil
	default:
		return nil, nil, false
	}
	var err error
	if r.Err && st.Fail {
		err = errStep // the collection-level call propagates the callback error => the txn rolled back
	}
	return res, err, true
}

// ---------------------------------------------------------------------------
// Readers
// ---------------------------------------------------------------------------

// Read paths
const (
	ReadRowTyped = 0 // Row.X(col)
	ReadTxnTyped = 1 // txn.X(col).Get()
	ReadRowAny   = 2 // Row.Any(col)
	ReadTxnAny   = 3 // txn.Any(col).Get()
	numReadPaths = 4
)

// readCell reads one column of the row under the cursor through the given path.
// row may be the zero Row when path is a txn path.
func readCell(txn *column.Txn, row column.Row, cs ColSpec, path int) (Cell, error) {
	name := cs.Name
	switch path {
	case ReadRowAny, ReadTxnAny:
		var x any
		var ok bool
		if path == ReadRowAny {
			x, ok = row.Any(name)
		} else {
			x, ok = txn.Any(name).Get()
		}
		if !ok {
			return Cell{}, nil
		}
		v, err := fromGoValue(cs.Kind, x)
		if err != nil {
			return Cell{}, err
		}
		if cs.Kind == KBool && v.B == 0 {
			return Cell{}, nil
		}
		return Cell{Has: true, V: v}, nil
	}
	viaTxn := path == ReadTxnTyped
	num := func(bits uint64, ok bool) (Cell, error) {
		if !ok {
			return Cell{}, nil
		}
		return Cell{Has: true, V: Value{B: bits}}, nil
	}
	str := func(s string, ok bool) (Cell, error) {
		if !ok {
			return Cell{}, nil
		}
		return Cell{Has: true, V: Value{S: s}}, nil
	}
	switch cs.Kind {
	case KInt:
		if viaTxn {
			v, ok := txn.Int(name).Get()
			return num(uint64(int64(v)), ok)
		}
		v, ok := row.Int(name)
		return num(uint64(int64(v)), ok)
	case KInt16:
		if viaTxn {
			v, ok := txn.Int16(name).Get()
			return num(uint64(int64(v)), ok)
		}
		v, ok := row.Int16(name)
		return num(uint64(int64(v)), ok)
	case KInt32:
		if viaTxn {
			v, ok := txn.Int32(name).Get()
			return num(uint64(int64(v)), ok)
		}
		v, ok := row.Int32(name)
		return num(uint64(int64(v)), ok)
	case KInt64:
		if viaTxn {
			v, ok := txn.Int64(name).Get()
			return num(uint64(v), ok)
		}
		v, ok := row.Int64(name)
		return num(uint64(v), ok)
	case KUint:
		if viaTxn {
			v, ok := txn.Uint(name).Get()
			return num(uint64(v), ok)
		}
		v, ok := row.Uint(name)
		return num(uint64(v), ok)
	case KUint16:
		if viaTxn {
			v, ok := txn.Uint16(name).Get()
			return num(uint64(v), ok)
		}
		v, ok := row.Uint16(name)
		return num(uint64(v), ok)
	case KUint32:
		if viaTxn {
			v, ok := txn.Uint32(name).Get()
			return num(uint64(v), ok)
		}
		v, ok := row.Uint32(name)
		return num(uint64(v), ok)
	case KUint64:
		if viaTxn {
			v, ok := txn.Uint64(name).Get()
			return num(v, ok)
		}
		v, ok := row.Uint64(name)
		return num(v, ok)
	case KFloat32:
		if viaTxn {
			v, ok := txn.Float32(name).Get()
			return num(uint64(math.Float32bits(v)), ok)
		}
		v, ok := row.Float32(name)
		return num(uint64(math.Float32bits(v)), ok)
	case KFloat64:
		if viaTxn {
			v, ok := txn.Float64(name).Get()
			return num(math.Float64bits(v), ok)
		}
		v, ok := row.Float64(name)
		return num(math.Float64bits(v), ok)
	case KBool:
		var v bool
		if viaTxn {
			v = txn.Bool(name).Get()
		} else {
			v = row.Bool(name)
		}
		return num(1, v)
	case KString:
		if viaTxn {
			return str(txn.String(name).Get())
		}
		return str(row.String(name))
	case KEnum:
		if viaTxn {
			return str(txn.Enum(name).Get())
		}
		return str(row.Enum(name))
	case KKey:
		if viaTxn {
			return str(txn.Key().Get())
		}
		return str(row.Key())
	case KRecord:
		var x any
		var ok bool
		if viaTxn {
			x, ok = txn.Record(name).Get()
		} else {
			x, ok = row.Record(name)
		}
		if !ok {
			return Cell{}, nil
		}
		rec, isRec := x.(*Rec)
		if !isRec {
			return Cell{}, fmt.Errorf("record reader returned %T", x)
		}
		b, _ := rec.MarshalBinary()
		return Cell{Has: true, V: Value{S: string(b)}}, nil
	}
	return Cell{}, fmt.Errorf("unknown kind")
}

// extractRange reads the whole collection inside one transaction with Range and
// the txn-level readers (typed, or Any when useAny).
func extractRange(c *column.Collection, sch *Schema, live []bool, useAny bool) (map[uint32]MRow, int, error) {
	out := map[uint32]MRow{}
	var rerr error
	txnCount := 0
	path := ReadTxnTyped
	if useAny {
		path = ReadTxnAny
	}
	err := c.Query(func(txn *column.Txn) error {
		txnCount = txn.Count()
		last := int64(-1)
		return txn.Range(func(idx uint32) {
			if rerr != nil {
				return
			}
			if int64(idx) <= last {
				rerr = fmt.Errorf("Range visits offset %d after %d (not ascending / repeated)", idx, last)
				return
			}
			last = int64(idx)
			if txn.Index() != idx {
				rerr = fmt.Errorf("Range: cursor is %d in the callback for offset %d", txn.Index(), idx)
				return
			}
			row := make(MRow, len(sch.Cols))
			for i, cs := range sch.Cols {
				if !live[i] {
					continue
				}
				cell, err := readCell(txn, column.Row{}, cs, path)
				if err != nil {
					rerr = fmt.Errorf("row %d column %s: %v", idx, cs.Name, err)
					return
				}
				row[i] = cell
			}
			out[idx] = row
		})
	})
	if rerr == nil {
		rerr = err
	}
	return out, txnCount, rerr
}

// readRowAt reads one row with a point read; exists reports nothing (point reads
// do not tell whether the row is live), so callers use it for live rows only.
func readRowAt(c *column.Collection, sch *Schema, live []bool, off uint32, path int) (MRow, error) {
	row := make(MRow, len(sch.Cols))
	var rerr error
	read := func(txn *column.Txn, r column.Row) {
		for i, cs := range sch.Cols {
			if !live[i] {
				continue
			}
			cell, err := readCell(txn, r, cs, path)
			if err != nil {
				rerr = fmt.Errorf("row %d column %s: %v", off, cs.Name, err)
				return
			}
			row[i] = cell
		}
	}
	var err error
	if path == ReadRowTyped || path == ReadRowAny {
		err = c.QueryAt(off, func(r column.Row) error {
			if r.Index() != off {
				rerr = fmt.Errorf("QueryAt(%d): Row.Index() = %d", off, r.Index())
			}
			read(nil, r)
			return nil
		})
	} else {
		err = c.Query(func(txn *column.Txn) error {
			return txn.QueryAt(off, func(r column.Row) error {
				read(txn, r)
				return nil
			})
		})
	}
	if rerr == nil {
		rerr = err
	}
	return row, rerr
}
