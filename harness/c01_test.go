package harness

import (
	"testing"

	"github.com/kelindar/column"
	"pgregory.net/rapid"
)

// ---------------------------------------------------------------------------
// C01 — committed values read back exactly, for every column type and offset
// ---------------------------------------------------------------------------

// plainTxnCfg: committed transactions only (C01 is about committed values).
func c01TxnCfg() TxnCfg {
	return TxnCfg{Prop: "C01", MaxSteps: 12, Deletes: true, Inserts: true, Merges: true, OwnUpdates: true, Direct: true, Rollback: true, Peeks: true,
		NoStoreOnDel: KFActive("f11-store-and-delete-same-txn"), NoOpAfterLenMerge: KFActive("f15-difflen-merge-reorder")}
}

func genPrefillSize(t *rapid.T, allowBig bool) int {
	cls := rapid.IntRange(0, 19).Draw(t, "prefill-class")
	switch {
	case cls == 0 && allowBig:
		return 16384 + rapid.IntRange(-3, 3).Draw(t, "around-block")
	case cls == 1 && allowBig:
		return 33000 + rapid.IntRange(0, 10).Draw(t, "two-blocks")
	case cls <= 5:
		return rapid.SampledFrom([]int{63, 64, 65, 127, 128, 129}).Draw(t, "word-sizes")
	}
	return rapid.IntRange(1, 70).Draw(t, "small")
}

func (mc *Machine) prefillAction(t *rapid.T) {
	if len(mc.M.Rows) > 40000 {
		t.Skip("large enough")
	}
	n := genPrefillSize(t, len(mc.M.Rows) < 20000 && mc.bigPrefills < 2)
	if n > 1000 {
		mc.bigPrefills++
	}
	cols := storableCols(mc.M, TxnCfg{})
	// a drawn subset of columns (at most 4, so that 33k-row prefills stay cheap)
	var use []int
	for _, c := range cols {
		if len(use) < 4 && rapid.Bool().Draw(t, "use-col") {
			use = append(use, c)
		}
	}
	mc.ActPrefill(t, n, use, rapid.Uint64().Draw(t, "seed"))
	if n > 1000 {
		mc.CheckFull(t, false)
	}
}

func TestC01(t *testing.T) {
	rapid.Check(t, func(t *rapid.T) {
		sch := genSchema(t, SchemaCfg{Key: 1, Late: true, Merges: true})
		mc := NewMachine("C01", sch, column.Options{})
		defer mc.Close()
		defer mc.Guard(t)
		cfg := c01TxnCfg()
		if rapid.IntRange(0, 7).Draw(t, "start-after-failed-restore") == 0 {
			mc.ActFailedRestore(t)
		}
		t.Repeat(map[string]func(*rapid.T){
			"txn":        func(t *rapid.T) { mc.ActTxn(t, cfg) },
			"txn2":       func(t *rapid.T) { mc.ActTxn(t, cfg) },
			"prefill":    mc.prefillAction,
			"bulkDelete": func(t *rapid.T) { mc.ActBulkDelete(t); mc.sampleCheck(t) },
			"lateColumn": mc.ActLateColumn,
		})
		mc.CheckFull(t, false)
		mc.CheckFull(t, true)
		live := mc.M.Live()
		if len(live) > 150 {
			live = append(append([]uint32{}, live[:75]...), live[len(live)-75:]...)
		}
		mc.CheckRows(t, live, ReadRowTyped, ReadRowAny)
		nt := mc.Flags["multiblock"] || mc.Flags["reuse"] || mc.Flags["multiwrite"] || mc.Flags["descending"] || mc.Flags["late-written"]
		RecordCase("C01", mc.Desc(), nt && len(mc.M.Rows) > 0, mc.Labels()...)
	})
}

// sampleCheck verifies a sample of rows (first, last, boundaries) after bulk actions.
func (mc *Machine) sampleCheck(t *rapid.T) {
	live := mc.M.Live()
	if len(live) <= 200 {
		mc.CheckFull(t, false)
		return
	}
	var rows []uint32
	rows = append(rows, live[:20]...)
	rows = append(rows, live[len(live)-20:]...)
	for i := 0; i < 20; i++ {
		rows = append(rows, live[rapid.IntRange(0, len(live)-1).Draw(t, "sample")])
	}
	mc.CheckRows(t, rows, ReadRowTyped, ReadTxnAny)
}
