package harness

import (
	"testing"

	"github.com/kelindar/column"
	"pgregory.net/rapid"
)

// ---------------------------------------------------------------------------
// C01 — committed values read back exactly, for every column type and offset
// ---------------------------------------------------------------------------

// plainTxnCfg: committed transactions only (C01 is about committed values).
func c01TxnCfg() TxnCfg {
	return TxnCfg{Prop: "C01", MaxSteps: 12, Deletes: true, Inserts: true, Merges: true, OwnUpdates: true, Direct: true, Rollback: true, Peeks: true,
		// known finding f15 (a re-queued merge result is read AFTER later operations on its row) concerns the
		// passes that follow the column's own one - indexes, triggers, loggers, replicas. This check has none of
		// those: the value the collection itself holds must be right also after a length-changing merge that is
		// followed by further stores (since fix f30 it is), so the region is not excluded here.
		NoStoreOnDel: KFActive("f11-store-and-delete-same-txn")}
}

func genPrefillSize(t *rapid.T, allowBig bool) int {
	cls := rapid.IntRange(0, 19).Draw(t, "prefill-class")
	switch {
	case cls == 0 && allowBig:
		return 16384 + rapid.IntRange(-3, 3).Draw(t, "around-block")
	case cls == 1 && allowBig:
		return 33000 + rapid.IntRange(0, 10).Draw(t, "two-blocks")
	case cls <= 5:
		return rapid.SampledFrom([]int{63, 64, 65, 127, 128, 129}).Draw(t, "word-sizes")
	}
	return rapid.IntRange(1, 70).Draw(t, "small")
}

func (mc *Machine) prefillAction(t *rapid.T) {
	if len(mc.M.Rows) > 40000 {
		t.Skip("large enough")
	}
	n := genPrefillSize(t, len(mc.M.Rows) < 20000 && mc.bigPrefills < 2)
	if n > 1000 {
		mc.bigPrefills++
	}
	cols := storableCols(mc.M, TxnCfg{})
	// a drawn subset of columns (at most 4, so that 33k-row prefills stay cheap)
	var use []int
	for _, c := range cols {
		if len(use) < 4 && rapid.Bool().Draw(t, "use-col") {
			use = append(use, c)
		}
	}
	mc.ActPrefill(t, n, use, rapid.Uint64().Draw(t, "seed"))
	if n > 1000 {
		mc.CheckFull(t, false)
	}
}

func TestC01(t *testing.T) {
	rapid.Check(t, func(t *rapid.T) {
		sch := genSchema(t, SchemaCfg{Key: 1, Late: true, Merges: true, EnsureLenMerge: rapid.Bool().Draw(t, "len-merge-column")})
		mc := NewMachine("C01", sch, column.Options{})
		defer mc.Close()
		defer mc.Guard(t)
		cfg := c01TxnCfg()
		if rapid.IntRange(0, 7).Draw(t, "start-after-failed-restore") == 0 {
			mc.ActFailedRestore(t)
		}
		t.Repeat(map[string]func(*rapid.T){
			"txn":        func(t *rapid.T) { mc.ActTxn(t, cfg) },
			"txn2":       func(t *rapid.T) { mc.ActTxn(t, cfg) },
			"prefill":    mc.prefillAction,
			"bulkDelete": func(t *rapid.T) { mc.ActBulkDelete(t); mc.sampleCheck(t) },
			"lateColumn": func(t *rapid.T) { mc.ActLateColumn(t) },
			"zigzag":     mc.zigzagAction,
			"dropColumn": func(t *rapid.T) { mc.ActDropColumn(t) },
		})
		mc.CheckFull(t, false)
		mc.CheckFull(t, true)
		live := mc.M.Live()
		if len(live) > 150 {
			live = append(append([]uint32{}, live[:75]...), live[len(live)-75:]...)
		}
		mc.CheckRows(t, live, ReadRowTyped, ReadRowAny)
		nt := mc.Flags["multiblock"] || mc.Flags["reuse"] || mc.Flags["multiwrite"] || mc.Flags["descending"] || mc.Flags["late-written"]
		RecordCase("C01", mc.Desc(), nt && len(mc.M.Rows) > 0, mc.Labels()...)
	})
}

// sampleCheck verifies a sample of rows (first, last, boundaries) after bulk actions.
func (mc *Machine) sampleCheck(t *rapid.T) {
	live := mc.M.Live()
	if len(live) <= 200 {
		mc.CheckFull(t, false)
		return
	}
	var rows []uint32
	rows = append(rows, live[:20]...)
	rows = append(rows, live[len(live)-20:]...)
	for i := 0; i < 20; i++ {
		rows = append(rows, live[rapid.IntRange(0, len(live)-1).Draw(t, "sample")])
	}
	mc.CheckRows(t, rows, ReadRowTyped, ReadTxnAny)
}

// zigzagAction: one transaction that merges into a row, writes the same column of a row in
// ANOTHER block, and comes back to the first row (merge, then perhaps a put) - on a column whose
// merge changes the length of the value, so that every merged result is re-queued at the end of
// the transaction buffer while later sections of the same block are still to be applied.
func (mc *Machine) zigzagAction(t *rapid.T) {
	col := -1
	for i, cs := range mc.Sch.Cols {
		if mc.M.ColLive[i] && mergeChangesLen(cs.Kind, cs.Merge) {
			col = i
		}
	}
	live := mc.M.Live()
	if col < 0 || len(live) == 0 || live[0]>>14 == live[len(live)-1]>>14 {
		t.Skip("needs a column with a length-changing merge and rows in two blocks")
	}
	r0 := live[rapid.IntRange(0, min(len(live)-1, 40)).Draw(t, "near")]
	r1 := live[len(live)-1-rapid.IntRange(0, min(len(live)-1, 40)).Draw(t, "far")]
	if rapid.Bool().Draw(t, "start-far") {
		r0, r1 = r1, r0
	}
	val := func(label string) Value {
		v := genValue(t, mc.Sch.Cols[col], label)
		return v
	}
	spec := TxnSpec{FailAt: -1}
	spec.Steps = append(spec.Steps,
		Step{Kind: SUpdate, Row: r0, Stores: []Store{{Col: col, Merge: true, Val: val("z1")}}},
		Step{Kind: SUpdate, Row: r1, Stores: []Store{{Col: col, Merge: rapid.Bool().Draw(t, "far-merge"), Val: val("z2")}}},
		Step{Kind: SUpdate, Row: r0, Stores: []Store{{Col: col, Merge: true, Val: val("z3")}}})
	if rapid.Bool().Draw(t, "then-put") {
		spec.Steps = append(spec.Steps, Step{Kind: SUpdate, Row: r0, Stores: []Store{{Col: col, Val: val("z4")}}})
	}
	if rapid.Bool().Draw(t, "and-back") {
		spec.Steps = append(spec.Steps, Step{Kind: SUpdate, Row: r1, Stores: []Store{{Col: col, Merge: true, Val: val("z5")}}})
	}
	mc.flag("zigzag-len-merge")
	eff, committed := mc.RunTxn(t, spec, false)
	if committed {
		mc.CheckTouched(t, eff)
	}
	mc.CheckCount(t)
}
