package harness

import (
	"fmt"
	"sort"
	"strings"
)

// ---------------------------------------------------------------------------
// Reference model of a collection (DESIGN.md §4). Pure data, no code shared
// with kelindar/column.
// ---------------------------------------------------------------------------

// Cell is one column of one row.
type Cell struct {
	Has bool
	V   Value
}

// MRow is a model row: one cell per schema column.
type MRow []Cell

func (r MRow) clone() MRow { return append(MRow(nil), r...) }

// Model is the reference state: live rows by offset.
type Model struct {
	Sch  *Schema
	Rows map[uint32]MRow
	// ColLive[i] reports whether schema column i exists (late columns start absent).
	ColLive []bool

	sorted      []uint32 // cache: sorted live offsets
	keyIdx      map[string][]uint32
	sortedValid bool
}

func NewModel(s *Schema) *Model {
	m := &Model{Sch: s, Rows: map[uint32]MRow{}, ColLive: make([]bool, len(s.Cols))}
	for i, c := range s.Cols {
		m.ColLive[i] = !c.Late
	}
	return m
}

func (m *Model) Clone() *Model {
	n := &Model{Sch: m.Sch, Rows: make(map[uint32]MRow, len(m.Rows)), ColLive: append([]bool(nil), m.ColLive...)}
	for k, v := range m.Rows {
		n.Rows[k] = v.clone()
	}
	return n
}

// Live returns the sorted live offsets (cached; do not modify).
func (m *Model) Live() []uint32 {
	if !m.sortedValid {
		m.sorted = m.sorted[:0]
		for k := range m.Rows {
			m.sorted = append(m.sorted, k)
		}
		sort.Slice(m.sorted, func(i, j int) bool { return m.sorted[i] < m.sorted[j] })
		m.sortedValid = true
	}
	return m.sorted
}

func (m *Model) dirty() { m.sortedValid = false; m.keyIdx = nil }

func (m *Model) Count() int { return len(m.Rows) }

// keyIndex returns key -> owners (ascending offsets), rebuilt lazily.
func (m *Model) keyIndex() map[string][]uint32 {
	if m.keyIdx == nil {
		m.keyIdx = map[string][]uint32{}
		if m.Sch.Key >= 0 {
			for _, off := range m.Live() {
				if c := m.Rows[off][m.Sch.Key]; c.Has {
					m.keyIdx[c.V.S] = append(m.keyIdx[c.V.S], off)
				}
			}
		}
	}
	return m.keyIdx
}

// KeyOf returns the offset of the live row holding key k.
func (m *Model) KeyOf(k string) (uint32, bool) {
	if owners := m.keyIndex()[k]; len(owners) > 0 {
		return owners[0], true
	}
	return 0, false
}

// KeyOwners returns all live rows holding key k (more than one = duplicate key).
func (m *Model) KeyOwners(k string) []uint32 {
	return m.keyIndex()[k]
}

// ---------------------------------------------------------------------------
// Transactions
// ---------------------------------------------------------------------------

// Store is one buffered write to a column of the row a step is positioned on.
type Store struct {
	Col   int // index into Schema.Cols
	Merge bool
	Val   Value
	Via   uint8 // which public writer is used (see sut.go)
}

type StepKind uint8

const (
	SUpdate    StepKind = iota // stores on an existing row (addressed by offset)
	SDelete                    // DeleteAt(row)
	SInsert                    // Insert with stores in the callback
	SInsertKey                 // InsertKey(key, stores)
	SUpsertKey                 // UpsertKey(key, stores)
	SQueryKey                  // QueryKey(key, stores)
	SDeleteKey                 // DeleteKey(key)
	SSetKey                    // QueryAt(row) { SetKey(key) }
	SOwnUpdate                 // stores on a row inserted earlier in the same transaction (Row = index of that step)
)

var stepNames = [...]string{"update", "delete", "insert", "insertKey", "upsertKey", "queryKey", "deleteKey", "setKey", "ownUpdate"}

// Step is one operation inside a transaction body.
type Step struct {
	Kind   StepKind
	Row    uint32 // target offset (SUpdate, SDelete, SSetKey); index of the inserting step (SOwnUpdate)
	Key    string
	Stores []Store
	Fail   bool  // the row callback returns an error after issuing its stores (the body swallows it)
	Access uint8 // how the row is addressed / written (see sut.go)
	// HasPeek: the last thing the row callback does is a nested read-only QueryAt(Peek) on the same
	// transaction (e.g. "insert a child and look at its parent"); it moves the transaction cursor
	// and has no effect in the model. Sequential histories only (nested read latches).
	HasPeek bool
	Peek    uint32
	// AlsoKey (SInsertKey of a fresh key only): the row callback ends with SetKey(AlsoKey) on the new
	// row; InsertKey queues its own key AFTER the callback, so the row ends up with Key and AlsoKey
	// must not resolve.
	AlsoKey string
}

// StepResult is what the real collection answered for a step.
type StepResult struct {
	Offset  uint32 // offset given to an insert / offset the callback ran on
	Ran     bool   // the row callback ran
	Err     bool   // the call returned an error
	Deleted bool   // DeleteAt returned true
}

// TxnSpec is a generated transaction.
type TxnSpec struct {
	Steps  []Step
	FailAt int // -1: commit; k: the body returns an error right after step k
	// Panic: instead of returning an error the body PANICS right after step FailAt (between two
	// steps, where no latch is held) and the caller recovers. Only generated for bodies that have
	// not inserted anything by then (a panic skips the rollback that releases reserved offsets;
	// the properties speak of bodies that RETURN an error). Nothing of such a body may ever
	// become visible or be emitted.
	Panic bool
	// Touch: columns whose typed accessor the body obtains and only READS after its last step
	// (allocates an update buffer that stays empty). The model ignores it.
	Touch []int
	// Prefilter: the body starts by narrowing its selection to nothing (WithValue(col, never) and
	// Count) before its steps. Only generated for bodies without DeleteAt steps: txn.DeleteAt answers
	// for the current selection, every other operation (QueryAt, inserts, all key operations) is
	// independent of it. The model ignores it.
	Prefilter int // 0 = none, otherwise 1 + index of the filtered column
}

func (s *Schema) renderStores(stores []Store) string {
	parts := make([]string, len(stores))
	for i, st := range stores {
		op := "="
		if st.Merge {
			op = "+="
		}
		parts[i] = fmt.Sprintf("%s%s%s/v%d", s.Cols[st.Col].Name, op, st.Val.render(s.Cols[st.Col].Kind), st.Via)
	}
	return strings.Join(parts, ",")
}

func (s *Schema) renderStep(st Step) string {
	var b strings.Builder
	b.WriteString(stepNames[st.Kind])
	switch st.Kind {
	case SUpdate, SDelete:
		fmt.Fprintf(&b, "@%d", st.Row)
	case SOwnUpdate:
		fmt.Fprintf(&b, "@step%d", st.Row)
	case SSetKey:
		fmt.Fprintf(&b, "@%d(%q)", st.Row, st.Key)
	case SInsertKey, SUpsertKey, SQueryKey, SDeleteKey:
		fmt.Fprintf(&b, "(%q)", st.Key)
	}
	if len(st.Stores) > 0 {
		fmt.Fprintf(&b, "{%s}", s.renderStores(st.Stores))
	}
	if st.HasPeek {
		fmt.Fprintf(&b, "+peek@%d", st.Peek)
	}
	if st.AlsoKey != "" {
		fmt.Fprintf(&b, "+setKey(%q)", st.AlsoKey)
	}
	if st.Fail {
		b.WriteString("!fail")
	}
	if st.Access != 0 {
		fmt.Fprintf(&b, "/a%d", st.Access)
	}
	return b.String()
}

func (s *Schema) renderTxn(t TxnSpec) string {
	parts := make([]string, len(t.Steps))
	for i, st := range t.Steps {
		parts[i] = s.renderStep(st)
	}
	end := "commit"
	if t.FailAt >= 0 {
		end = fmt.Sprintf("rollback-after-step-%d", t.FailAt)
		if t.Panic {
			end = fmt.Sprintf("panic-after-step-%d (recovered by the caller)", t.FailAt)
		}
	}
	if t.Prefilter > 0 {
		parts = append([]string{"selection narrowed to nothing through " + s.Cols[t.Prefilter-1].Name}, parts...)
	}
	if len(t.Touch) > 0 {
		var names []string
		for _, ci := range t.Touch {
			names = append(names, s.Cols[ci].Name)
		}
		end = "then only READ through the accessors of " + strings.Join(names, ",") + "; " + end
	}
	return "txn[" + strings.Join(parts, "; ") + "] " + end
}

// applyStore applies one store to a model row.
func (m *Model) applyStore(row MRow, st Store) {
	cs := m.Sch.Cols[st.Col]
	cell := &row[st.Col]
	switch {
	case cs.Kind == KBool:
		cell.Has = st.Val.B != 0
		cell.V = Value{B: canon(KBool, st.Val.B)}
	case !st.Merge:
		cell.Has, cell.V = true, st.Val
	case cs.Kind.Numeric():
		cur := uint64(0)
		if cell.Has {
			cur = cell.V.B
		}
		cell.Has, cell.V = true, Value{B: mergeNumeric(cs.Kind, cs.Merge, cur, st.Val.B)}
		if cs.Kind.Float() && isNaNBits(cs.Kind, cell.V.B) {
			// The payload of a NaN produced by arithmetic (NaN+x, Inf-Inf) depends on the
			// operand order the compiler picks: any NaN is a correct result.
			cell.V.S = nanAny
		}
	default:
		cur := ""
		if cell.Has {
			cur = cell.V.S
		}
		cell.Has, cell.V = true, Value{S: mergeBytes(cs.Kind, cs.Merge, cur, st.Val.S)}
	}
}

// TxnEffect summarises what a committed transaction did, per model semantics.
type TxnEffect struct {
	Inserted []uint32        // rows created
	Deleted  []uint32        // rows removed (were live before the transaction)
	Touched  map[uint32]bool // rows whose cells may have changed (incl. inserted, deleted)
	Blocks   map[uint32]bool // 16K blocks in which the transaction buffered at least one operation that changes state
}

// CheckAndApply validates the answers the real collection gave for a transaction
// against the model (insert offsets free, key operations' outcomes) and, if the
// transaction committed, applies it. The returned error describes a property
// violation (C11/C12 flavour); the caller decides which property it reports under.
func (m *Model) CheckAndApply(t TxnSpec, res []StepResult, committed bool) (*TxnEffect, error) {
	eff := &TxnEffect{Touched: map[uint32]bool{}, Blocks: map[uint32]bool{}}
	reserved := map[uint32]bool{}
	deleted := map[uint32]bool{}
	type pending struct {
		off    uint32
		stores []Store
	}
	var writes []pending
	inserted := map[uint32]bool{}
	nsteps := len(t.Steps)
	if t.FailAt >= 0 {
		nsteps = t.FailAt + 1
	}
	for i := 0; i < nsteps; i++ {
		st, r := t.Steps[i], res[i]
		switch st.Kind {
		case SUpdate:
			if !r.Ran || r.Err != st.Fail {
				return nil, fmt.Errorf("step %d (%s): callback ran=%v err=%v", i, m.Sch.renderStep(st), r.Ran, r.Err)
			}
			writes = append(writes, pending{st.Row, st.Stores})
		case SOwnUpdate:
			off := res[st.Row].Offset
			writes = append(writes, pending{off, st.Stores})
		case SDelete:
			_, live := m.Rows[st.Row]
			if r.Deleted != live {
				return nil, fmt.Errorf("step %d: DeleteAt(%d) returned %v, row live in model: %v", i, st.Row, r.Deleted, live)
			}
			if live {
				deleted[st.Row] = true
			}
		case SInsert, SInsertKey, SUpsertKey:
			exists := false
			var at uint32
			if st.Kind != SInsert {
				at, exists = m.KeyOf(st.Key)
			}
			switch {
			case st.Kind == SInsertKey && exists:
				if !r.Err || r.Ran {
					return nil, fmt.Errorf("step %d: InsertKey(%q) on an existing key (row %d): err=%v ran=%v, want an error and no callback", i, st.Key, at, r.Err, r.Ran)
				}
				continue
			case st.Kind == SUpsertKey && exists:
				if !r.Ran || r.Offset != at || r.Err != st.Fail {
					return nil, fmt.Errorf("step %d: UpsertKey(%q): callback ran=%v on row %d err=%v, model has the key at row %d", i, st.Key, r.Ran, r.Offset, r.Err, at)
				}
				writes = append(writes, pending{at, st.Stores})
				continue
			}
			// a new row
			if !r.Ran {
				return nil, fmt.Errorf("step %d (%s): insert callback did not run (err=%v)", i, m.Sch.renderStep(st), r.Err)
			}
			if r.Err != st.Fail {
				return nil, fmt.Errorf("step %d (%s): insert returned err=%v, callback failed=%v", i, m.Sch.renderStep(st), r.Err, st.Fail)
			}
			if _, live := m.Rows[r.Offset]; live {
				return nil, fmt.Errorf("step %d: insert was given offset %d, which holds a live row", i, r.Offset)
			}
			if reserved[r.Offset] {
				return nil, fmt.Errorf("step %d: insert was given offset %d, which an earlier insert of the same transaction holds", i, r.Offset)
			}
			if st.Fail {
				continue // creates no row, no values; its offset is free again
			}
			reserved[r.Offset] = true
			inserted[r.Offset] = true
			stores := st.Stores
			if st.Kind != SInsert {
				stores = append([]Store{}, stores...)
				if st.AlsoKey != "" {
					stores = append(stores, Store{Col: m.Sch.Key, Val: Value{S: st.AlsoKey}})
				}
				stores = append(stores, Store{Col: m.Sch.Key, Val: Value{S: st.Key}})
			}
			writes = append(writes, pending{r.Offset, stores})
		case SQueryKey:
			at, exists := m.KeyOf(st.Key)
			if !exists {
				if !r.Err || r.Ran {
					return nil, fmt.Errorf("step %d: QueryKey(%q) on an absent key: err=%v ran=%v", i, st.Key, r.Err, r.Ran)
				}
				continue
			}
			if !r.Ran || r.Offset != at || r.Err != st.Fail {
				return nil, fmt.Errorf("step %d: QueryKey(%q): ran=%v on row %d err=%v, model has the key at row %d", i, st.Key, r.Ran, r.Offset, r.Err, at)
			}
			writes = append(writes, pending{at, st.Stores})
		case SDeleteKey:
			at, exists := m.KeyOf(st.Key)
			if r.Err == exists {
				return nil, fmt.Errorf("step %d: DeleteKey(%q) err=%v, key exists in model: %v", i, st.Key, r.Err, exists)
			}
			if exists {
				deleted[at] = true
			}
		case SSetKey:
			_, exists := m.KeyOf(st.Key)
			if r.Err != exists {
				return nil, fmt.Errorf("step %d: SetKey(%q) on row %d err=%v, key exists in model: %v", i, st.Key, st.Row, r.Err, exists)
			}
			if !exists {
				writes = append(writes, pending{st.Row, []Store{{Col: m.Sch.Key, Val: Value{S: st.Key}}}})
			}
		}
	}
	if !committed {
		return eff, nil
	}
	// commit: inserts create rows, stores apply in issue order, deletes dominate.
	for off := range inserted {
		m.Rows[off] = make(MRow, len(m.Sch.Cols))
		eff.Inserted = append(eff.Inserted, off)
		eff.Touched[off] = true
		eff.Blocks[off>>14] = true
	}
	for _, w := range writes {
		if len(w.stores) > 0 {
			eff.Blocks[w.off>>14] = true
		}
		row, ok := m.Rows[w.off]
		if !ok {
			continue // (input-domain rule: generators only write to live rows; kept total for safety)
		}
		eff.Touched[w.off] = true
		for _, st := range w.stores {
			if m.ColLive[st.Col] {
				m.applyStore(row, st)
			}
		}
	}
	for off := range deleted {
		delete(m.Rows, off)
		eff.Deleted = append(eff.Deleted, off)
		eff.Touched[off] = true
		eff.Blocks[off>>14] = true
	}
	sort.Slice(eff.Inserted, func(i, j int) bool { return eff.Inserted[i] < eff.Inserted[j] })
	sort.Slice(eff.Deleted, func(i, j int) bool { return eff.Deleted[i] < eff.Deleted[j] })
	m.dirty()
	return eff, nil
}

// ---------------------------------------------------------------------------
// Comparison
// ---------------------------------------------------------------------------

// diffRow compares a model row with an observed row.
func (m *Model) diffRow(off uint32, want, got MRow, what string) string {
	for i := range m.Sch.Cols {
		if !m.ColLive[i] {
			continue
		}
		w, g := want[i], got[i]
		if !cellEqual(m.Sch.Cols[i].Kind, w, g) {
			return fmt.Sprintf("%s: row %d column %s: got %s, want %s", what, off, m.Sch.Cols[i].Name, renderCell(m.Sch.Cols[i].Kind, g), renderCell(m.Sch.Cols[i].Kind, w))
		}
	}
	return ""
}

func renderCell(k Kind, c Cell) string {
	if !c.Has {
		if k == KBool {
			return "false"
		}
		return "<absent>"
	}
	return c.V.render(k)
}

// diffStates compares the model with an extracted state (offset -> row).
func (m *Model) diffStates(got map[uint32]MRow, what string) string {
	if len(got) != len(m.Rows) {
		// find one offset that explains it
		for off := range got {
			if _, ok := m.Rows[off]; !ok {
				return fmt.Sprintf("%s: %d rows, model has %d; row %d exists but is not live in the model", what, len(got), len(m.Rows), off)
			}
		}
		for _, off := range m.Live() {
			if _, ok := got[off]; !ok {
				return fmt.Sprintf("%s: %d rows, model has %d; model row %d is missing", what, len(got), len(m.Rows), off)
			}
		}
	}
	for _, off := range m.Live() {
		g, ok := got[off]
		if !ok {
			return fmt.Sprintf("%s: model row %d is missing", what, off)
		}
		if d := m.diffRow(off, m.Rows[off], g, what); d != "" {
			return d
		}
	}
	return ""
}

const nanAny = "nan-any"

func isNaNBits(k Kind, bits uint64) bool {
	if k == KFloat32 {
		return bits&0x7f800000 == 0x7f800000 && bits&0x007fffff != 0
	}
	return bits&0x7ff0000000000000 == 0x7ff0000000000000 && bits&0x000fffffffffffff != 0
}

// cellEqual compares an expected (model) cell with an observed one.
func cellEqual(k Kind, want, got Cell) bool {
	if want.Has != got.Has {
		return false
	}
	if !want.Has {
		return true
	}
	if k.Float() && want.V.S == nanAny {
		return isNaNBits(k, got.V.B)
	}
	return want.V == got.V
}
