package harness

import (
	"fmt"
	"runtime"
	"sync"
	"sync/atomic"
	"testing"
	"time"

	"github.com/kelindar/column"
	"pgregory.net/rapid"
)

// ---------------------------------------------------------------------------
// C10 — a reader never sees a half-applied commit on a row
//
// Workload invariant: every row always holds a, b, c with a == -b == c
// (c identifies the writing transaction). Writers change all three columns of
// a row in one transaction (puts or merges), or delete/insert whole rows.
// ---------------------------------------------------------------------------

type c10Obs struct {
	WantRows int // when set: the number of rows the union filter must select (no row is ever deleted)
	Rows     int
	Absent   int
	Bad      string
	Versions map[uint32]map[int]bool
}

// c10CheckRow is called inside a read callback, positioned on a row.
func c10CheckRow(idx uint32, a int, okA bool, b int, okB bool, c uint64, okC bool, obs *c10Obs) {
	obs.Rows++
	if obs.Bad != "" {
		return
	}
	switch {
	case okA != okB || okB != okC:
		obs.Bad = fmt.Sprintf("row %d: a present=%v b present=%v c present=%v inside one callback (the columns of one commit did not become visible together)", idx, okA, okB, okC)
	case !okA:
		// all three absent together: the row was deleted after the reader took its selection
		// (a committed state), or it is an in-flight reservation (known finding f10) - not judged
		obs.Absent++
	case a+b != 0 || uint64(a) != c:
		obs.Bad = fmt.Sprintf("row %d: a=%d b=%d c=%d inside one callback: a mixture of two committed states (every transaction writes a=v, b=-v, c=v)", idx, a, b, c)
	}
	if obs.Versions != nil {
		if obs.Versions[idx] == nil {
			obs.Versions[idx] = map[int]bool{}
		}
		obs.Versions[idx][a] = true
	}
}

const (
	c10QueryAt = iota
	c10Range
	c10FilteredIndex
	c10FilteredTyped
	c10QueryAtBatch // several txn.QueryAt point reads inside ONE transaction
	c10UnionFilter  // With(all).WithUnion(odd, even): two indexes of one column that partition the rows
	c10Styles
	// point reads by key (keyed collections only): QueryKey and the existing-key branch of UpsertKey
	c10QueryKey    = c10Styles
	c10UpsertKey   = c10Styles + 1
	c10StylesKeyed = c10Styles + 2
)

var c10StyleNames = [...]string{"QueryAt", "Range", "With(index).Range", "WithInt.Range", "txn.QueryAt x N in one transaction", "With(all).WithUnion(odd,even).Range", "QueryKey", "UpsertKey(existing key)"}

func c10Key(off uint32) string { return fmt.Sprintf("r%d", off) }

// c10Read performs one read in the given style over the target rows.
func c10Read(c *column.Collection, style int, rows []uint32, obs *c10Obs) {
	switch style {
	case c10QueryAt, c10QueryKey, c10UpsertKey:
		for _, off := range rows {
			cb := func(r column.Row) error {
				a, okA := r.Int("a")
				b, okB := r.Int("b")
				cc, okC := r.Uint64("c")
				c10CheckRow(off, a, okA, b, okB, cc, okC, obs)
				return nil
			}
			switch style {
			case c10QueryAt:
				c.QueryAt(off, cb)
			case c10QueryKey:
				c.QueryKey(c10Key(off), cb)
			case c10UpsertKey:
				c.UpsertKey(c10Key(off), cb)
			}
		}
	case c10QueryAtBatch:
		c.Query(func(txn *column.Txn) error {
			for round := 0; round < 2; round++ {
				for _, off := range rows {
					off := off
					txn.QueryAt(off, func(r column.Row) error {
						a, okA := r.Int("a")
						b, okB := r.Int("b")
						cc, okC := r.Uint64("c")
						c10CheckRow(off, a, okA, b, okB, cc, okC, obs)
						return nil
					})
				}
			}
			return nil
		})
	default:
		c.Query(func(txn *column.Txn) error {
			switch style {
			case c10UnionFilter:
				// every row that holds a is in exactly one of the two indexes at every committed state:
				// the union selects all of them; a row that is momentarily in neither is a mixture
				txn.With("all").WithUnion("odd", "even")
				if obs.WantRows > 0 {
					if n := txn.Count(); n != obs.WantRows && obs.Bad == "" {
						obs.Bad = fmt.Sprintf("With(all).WithUnion(odd,even) selects %d rows; the two indexes partition the %d rows at every committed state", n, obs.WantRows)
					}
				}
			case c10FilteredIndex:
				txn.With("all")
			case c10FilteredTyped:
				txn.WithInt("live", func(v int64) bool { return v == 1 })
			}
			ra, rb, rc := txn.Int("a"), txn.Int("b"), txn.Uint64("c")
			return txn.Range(func(idx uint32) {
				a, okA := ra.Get()
				b, okB := rb.Get()
				cc, okC := rc.Get()
				c10CheckRow(idx, a, okA, b, okB, cc, okC, obs)
			})
		})
	}
}

func c10Collection(blocks int) (*column.Collection, []uint32) { return c10CollectionK(blocks, false) }

// c10CollectionK: with keyed, every row carries the key c10Key(offset).
func c10CollectionK(blocks int, keyed bool) (*column.Collection, []uint32) {
	c := column.NewCollection(column.Options{Capacity: 1024, Vacuum: 24 * 3600 * 1e9})
	if keyed {
		c.CreateColumn("k", column.ForKey())
	}
	c.CreateColumn("a", column.ForInt())
	c.CreateColumn("b", column.ForInt())
	c.CreateColumn("c", column.ForUint64())
	c.CreateColumn("live", column.ForInt())
	c.CreateIndex("all", "live", func(r column.Reader) bool { return r.Int() == 1 })
	c.CreateIndex("odd", "a", func(r column.Reader) bool { return r.Int()%2 != 0 })
	c.CreateIndex("even", "a", func(r column.Reader) bool { return r.Int()%2 == 0 })
	n := (blocks-1)*16384 + 6
	var offs []uint32
	c.Query(func(txn *column.Txn) error {
		for i := 0; i < n; i++ {
			fill := func(r column.Row) error {
				r.SetInt("a", 0)
				r.SetInt("b", 0)
				r.SetUint64("c", 0)
				r.SetInt("live", 1)
				return nil
			}
			if keyed {
				// offsets of a fresh collection are handed out in order: row i gets the key of offset i
				if err := txn.InsertKey(c10Key(uint32(i)), fill); err != nil {
					panic(err)
				}
				offs = append(offs, uint32(i))
				continue
			}
			off, _ := txn.Insert(fill)
			offs = append(offs, off)
		}
		return nil
	})
	if keyed {
		for _, off := range []uint32{0, uint32(n - 1)} {
			var at uint32
			c.QueryKey(c10Key(off), func(r column.Row) error { at = r.Index(); return nil })
			if at != off {
				panic(fmt.Sprintf("harness: key %s is at offset %d", c10Key(off), at))
			}
		}
	}
	// keep a handful of rows per block
	keep := map[uint32]bool{}
	var rows []uint32
	for b := 0; b < blocks; b++ {
		for _, d := range []uint32{0, 1, 2, 3, 4, 5} {
			keep[uint32(b)<<14+d] = true
			rows = append(rows, uint32(b)<<14+d)
		}
	}
	c.Query(func(txn *column.Txn) error {
		for _, off := range offs {
			if !keep[off] {
				txn.DeleteAt(off)
			}
		}
		return nil
	})
	return c, rows
}

type c10WriterOp struct {
	Kind int // 0 put all three, 1 merge all three, 2 delete row + insert a new one, 3/4 put/merge through accessors after a positioning QueryAt
	Row  uint32
}

func c10Write(c *column.Collection, ops []c10WriterOp, version int, cur map[uint32]int) {
	c.Query(func(txn *column.Txn) error {
		for _, op := range ops {
			switch op.Kind {
			case 0:
				txn.QueryAt(op.Row, func(r column.Row) error {
					r.SetInt("a", version)
					r.SetInt("b", -version)
					r.SetUint64("c", uint64(version))
					return nil
				})
				cur[op.Row] = version
			case 1:
				d := version - cur[op.Row]
				txn.QueryAt(op.Row, func(r column.Row) error {
					r.MergeInt("a", d)
					r.MergeInt("b", -d)
					r.MergeUint64("c", uint64(d))
					return nil
				})
				cur[op.Row] = version
			case 3, 4:
				// accessor style: the point query only positions the cursor, the writes go through column
				// accessors AFTER it returned (3: stores, 4: merges)
				txn.QueryAt(op.Row, func(column.Row) error { return nil })
				a, b, cc := txn.Int("a"), txn.Int("b"), txn.Uint64("c")
				if op.Kind == 3 {
					a.Set(version)
					b.Set(-version)
					cc.Set(uint64(version))
				} else {
					d := version - cur[op.Row]
					a.Merge(d)
					b.Merge(-d)
					cc.Merge(uint64(d))
				}
				cur[op.Row] = version
			case 2:
				txn.DeleteAt(op.Row)
				delete(cur, op.Row)
				off, _ := txn.Insert(func(r column.Row) error {
					r.SetInt("a", version)
					r.SetInt("b", -version)
					r.SetUint64("c", uint64(version))
					r.SetInt("live", 1)
					return nil
				})
				cur[off] = version
			}
		}
		return nil
	})
}

// runC10Latched: park the writer at its k-th mid-apply point (latch held) and let
// readers run as may-block steps. Returns a violation message or "".
func runC10Latched(blocks int, ops []c10WriterOp, parkAt int, styles []int, sameBlock bool) (msg string, parkedMid bool, readerBlocked, readerThrough int) {
	keyed := false
	for _, st := range styles {
		keyed = keyed || st >= c10Styles
	}
	c, rows := c10CollectionK(blocks, keyed)
	defer c.Close()
	cur := map[uint32]int{}
	for _, r := range rows {
		cur[r] = 0
	}
	c10Write(c, []c10WriterOp{{0, rows[0]}, {0, rows[len(rows)-1]}}, 1, cur) // warm-up commit
	var writerGID int64
	count := 0
	parked := make(chan uint32, 1)
	resume := make(chan struct{})
	column.SetVerifHook(func(point string, block uint32) {
		if point != "commit:mid-apply" || curGID() != writerGID {
			return
		}
		count++
		if count == parkAt {
			parked <- block
			<-resume
		}
	})
	defer column.SetVerifHook(nil)
	wdone := make(chan struct{})
	go func() {
		writerGID = curGID()
		defer close(wdone)
		c10Write(c, ops, 2, cur)
	}()
	var heldBlock uint32
	select {
	case heldBlock = <-parked:
		parkedMid = true
	case <-wdone:
		// fewer mid-apply points than parkAt: nothing to observe
		return "", false, 0, 0
	case <-after(10 * time.Second):
		return "writer did not reach a yield point within 10 s (deadlock?)", false, 0, 0
	}
	// readers: may-block steps
	type rd struct {
		style int
		obs   *c10Obs
		done  chan struct{}
	}
	var readers []*rd
	for _, st := range styles {
		r := &rd{style: st, obs: &c10Obs{}, done: make(chan struct{})}
		readers = append(readers, r)
		target := rows
		if st == c10QueryAt || st == c10QueryAtBatch || st >= c10Styles {
			target = nil
			for _, off := range rows {
				if (off>>14 == heldBlock) == sameBlock {
					target = append(target, off)
				}
			}
			if len(target) == 0 {
				target = rows
			}
		}
		go func() {
			defer close(r.done)
			defer func() {
				if p := recover(); p != nil {
					r.obs.Bad = fmt.Sprintf("reader panicked: %v", p)
				}
			}()
			c10Read(c, r.style, target, r.obs)
		}()
		select {
		case <-r.done:
			readerThrough++
		case <-time.After(4 * time.Millisecond):
			readerBlocked++
		}
	}
	close(resume)
	select {
	case <-wdone:
	case <-after(10 * time.Second):
		return "writer did not finish within 10 s after being resumed (deadlock?)", parkedMid, readerBlocked, readerThrough
	}
	for _, r := range readers {
		select {
		case <-r.done:
		case <-after(10 * time.Second):
			return fmt.Sprintf("a %s reader did not finish within 10 s after the writer released the latch (deadlock?)", c10StyleNames[r.style]), parkedMid, readerBlocked, readerThrough
		}
		if r.obs.Bad != "" {
			return fmt.Sprintf("%s reader while a commit on block %d was parked after %d of its apply steps: %s", c10StyleNames[r.style], heldBlock, parkAt, r.obs.Bad), parkedMid, readerBlocked, readerThrough
		}
	}
	// quiescent final check
	final := &c10Obs{}
	c10Read(c, c10Range, nil, final)
	if final.Bad != "" {
		return "after the writer finished: " + final.Bad, parkedMid, readerBlocked, readerThrough
	}
	return "", parkedMid, readerBlocked, readerThrough
}

func TestC10Latched(t *testing.T) {
	rapid.Check(t, func(t *rapid.T) {
		blocks := rapid.IntRange(1, 2).Draw(t, "blocks")
		nops := rapid.IntRange(1, 3).Draw(t, "nops")
		var ops []c10WriterOp
		for i := 0; i < nops; i++ {
			ops = append(ops, c10WriterOp{Kind: rapid.IntRange(0, 4).Draw(t, "kind"), Row: uint32(rapid.IntRange(0, blocks-1).Draw(t, "blk"))<<14 + uint32(rapid.IntRange(0, 5).Draw(t, "row"))})
		}
		// no two ops on one row (a deleted row must not be written again)
		seen := map[uint32]bool{}
		var uniq []c10WriterOp
		for _, o := range ops {
			if !seen[o.Row] {
				seen[o.Row] = true
				uniq = append(uniq, o)
			}
		}
		ops = uniq
		parkAt := rapid.IntRange(1, 10).Draw(t, "park-at")
		var styles []int
		nstyles := c10Styles
		keyedOK := true
		for _, o := range ops {
			keyedOK = keyedOK && o.Kind != 2 // the delete+insert writer uses the unkeyed Insert
		}
		if keyedOK && rapid.Bool().Draw(t, "keyed") {
			nstyles = c10StylesKeyed
		}
		for n := rapid.IntRange(1, 3).Draw(t, "nreaders"); n > 0; n-- {
			styles = append(styles, rapid.IntRange(0, nstyles-1).Draw(t, "style"))
		}
		same := rapid.IntRange(0, 3).Draw(t, "same-block") != 0
		msg, parkedMid, blocked, through := runC10Latched(blocks, ops, parkAt, styles, same)
		if msg != "" {
			t.Fatalf("C10 violated: %s\nwriter ops: %+v blocks=%d readers=%v", msg, ops, blocks, styles)
		}
		desc := fmt.Sprintf("latched blocks=%d ops=%+v parkAt=%d readers=%v sameBlock=%v", blocks, ops, parkAt, styles, same)
		RecordCase("C10", desc, parkedMid, "latched", fmt.Sprintf("readers-blocked:%d", blocked), fmt.Sprintf("readers-through:%d", through))
	})
}

// TestC10LatchedExhaustive: 1 writer x {put, merge, delete+insert} x every
// mid-apply point x every reader style x 1..2 blocks.
func TestC10LatchedExhaustive(t *testing.T) {
	n := 0
	for blocks := 1; blocks <= 2; blocks++ {
		for kind := 0; kind <= 2; kind++ {
			for parkAt := 1; parkAt <= 8; parkAt++ {
				for style := 0; style < c10StylesKeyed; style++ {
					if style >= c10Styles && kind == 2 {
						continue // the delete+insert writer uses the unkeyed Insert
					}
					ops := []c10WriterOp{{Kind: kind, Row: 1}}
					if blocks == 2 {
						ops = append(ops, c10WriterOp{Kind: kind, Row: 16384 + 2})
					}
					msg, parkedMid, blocked, through := runC10Latched(blocks, ops, parkAt, []int{style}, true)
					if msg != "" {
						path := writeReplay("C10", "TestC10Replay", map[string]any{"blocks": blocks, "kind": kind, "parkAt": parkAt, "style": style, "why": msg})
						t.Fatalf("C10 violated: %s\nblocks=%d writer kind=%d parkAt=%d reader=%s\nreplay: %s", msg, blocks, kind, parkAt, c10StyleNames[style], path)
					}
					n++
					RecordCase("C10", fmt.Sprintf("exhaustive blocks=%d kind=%d parkAt=%d reader=%s", blocks, kind, parkAt, c10StyleNames[style]), parkedMid,
						"latched-exhaustive", fmt.Sprintf("readers-blocked:%d", blocked), fmt.Sprintf("readers-through:%d", through))
				}
			}
		}
	}
	SetExhaustive("C10", "1 writer x {put, merge, delete+insert} x mid-apply points 1..8 x 4 reader styles (+ QueryKey and UpsertKey point reads on a keyed collection for put/merge writers) x 1..2 blocks (latch-held mode)", true)
	AddCounter("C10", "latched_exhaustive_cases", int64(n))
}

func TestC10Replay(t *testing.T) {
	var rp struct {
		Blocks, Kind, ParkAt, Style int
	}
	if !loadReplay(t, &rp) {
		t.Skip("no replay file")
	}
	ops := []c10WriterOp{{Kind: rp.Kind, Row: 1}}
	if rp.Blocks == 2 {
		ops = append(ops, c10WriterOp{Kind: rp.Kind, Row: 16384 + 2})
	}
	if msg, _, _, _ := runC10Latched(rp.Blocks, ops, rp.ParkAt, []int{rp.Style}, true); msg != "" {
		t.Fatalf("C10 violated: %s", msg)
	}
}

// ---- mode 2: free parallelism ----------------------------------------------------

func TestC10Parallel(t *testing.T) {
	seconds := envInt("VERIF_C10_SECONDS", 3)
	rapid.Check(t, func(t *rapid.T) {
		blocks := rapid.IntRange(1, 2).Draw(t, "blocks")
		writers := rapid.IntRange(1, 6).Draw(t, "writers")
		readers := rapid.IntRange(2, 10).Draw(t, "readers")
		mergeToo := rapid.Bool().Draw(t, "merges")
		keyed := rapid.Bool().Draw(t, "keyed")
		var mu sync.Mutex
		bad := ""
		nstyles := c10Styles
		if keyed {
			nstyles = c10StylesKeyed
		}
		c, rows := c10CollectionK(blocks, keyed)
		defer c.Close()
		// a library panic in a worker is reported (it may also leave a latch locked: see the watchdog below)
		crashed := func(who string) {
			if p := recover(); p != nil {
				buf := make([]byte, 1<<12)
				buf = buf[:runtime.Stack(buf, false)]
				mu.Lock()
				if bad == "" {
					bad = fmt.Sprintf("%s panicked: %v\n%s", who, p, trimStack(string(buf)))
				}
				mu.Unlock()
			}
		}
		var version int64
		stop := make(chan struct{})
		var wg sync.WaitGroup
		var rowLocks [12]sync.Mutex // writers serialise per row so that merges keep the invariant
		for w := 0; w < writers; w++ {
			wg.Add(1)
			go func(w int) {
				defer wg.Done()
				defer crashed("a writer")
				i := 0
				for {
					select {
					case <-stop:
						return
					default:
					}
					i++
					ri := (w*7 + i) % len(rows)
					row := rows[ri]
					rowLocks[ri].Lock()
					v := int(atomic.AddInt64(&version, 1))
					if i%5 == 0 {
						// a transaction that writes only HALF of the row and then rolls back: nothing of it may ever be visible
						c.Query(func(txn *column.Txn) error {
							txn.QueryAt(row, func(r column.Row) error { r.SetInt("a", 1000000+v); return nil })
							return errRollback
						})
					}
					c.Query(func(txn *column.Txn) error {
						return txn.QueryAt(row, func(r column.Row) error {
							if mergeToo && i%2 == 0 {
								cur, _ := r.Int("a")
								r.MergeInt("a", v-cur)
								r.MergeInt("b", -(v - cur))
								r.MergeUint64("c", uint64(v-cur))
							} else {
								r.SetInt("a", v)
								r.SetInt("b", -v)
								r.SetUint64("c", uint64(v))
							}
							return nil
						})
					})
					rowLocks[ri].Unlock()
				}
			}(w)
		}
		// the first two readers always use the union filter (its window needs commits on ANOTHER block than
		// the one the reader is latched on, so it gets more tries), the others rotate through all styles
		styleOf := func(rd int) int {
			if rd < 2 {
				return c10UnionFilter
			}
			return rd % nstyles
		}
		maxVersions := int64(0)
		for rd := 0; rd < readers; rd++ {
			wg.Add(1)
			go func(rd int) {
				defer wg.Done()
				defer crashed("a " + c10StyleNames[styleOf(rd)] + " reader")
				obs := &c10Obs{Versions: map[uint32]map[int]bool{}, WantRows: len(rows)}
				for {
					select {
					case <-stop:
						for _, vs := range obs.Versions {
							if int64(len(vs)) > atomic.LoadInt64(&maxVersions) {
								atomic.StoreInt64(&maxVersions, int64(len(vs)))
							}
						}
						return
					default:
					}
					c10Read(c, styleOf(rd), rows, obs)
					if obs.Bad != "" {
						mu.Lock()
						if bad == "" {
							bad = c10StyleNames[styleOf(rd)] + " reader: " + obs.Bad
						}
						mu.Unlock()
						return
					}
				}
			}(rd)
		}
		time.Sleep(time.Duration(seconds) * time.Second / 4)
		close(stop)
		finished := make(chan struct{})
		go func() { wg.Wait(); close(finished) }()
		select {
		case <-finished:
		case <-after(30 * time.Second):
			mu.Lock()
			msg := bad
			mu.Unlock()
			t.Fatalf("C10 violated (free-parallel run, %d writers, %d readers, %d blocks): the workers did not finish within 30 s after the stop signal (deadlock, or a worker died holding a latch) %s", writers, readers, blocks, msg)
		}
		if bad != "" {
			t.Fatalf("C10 violated (free-parallel run, %d writers, %d readers, %d blocks): %s", writers, readers, blocks, bad)
		}
		RecordCase("C10", fmt.Sprintf("free-parallel writers=%d readers=%d blocks=%d merges=%v keyed=%v versions-seen=%d", writers, readers, blocks, mergeToo, keyed, maxVersions),
			maxVersions >= 3, "free-parallel")
	})
}
