package harness

import (
	"fmt"
	"math"
	"sort"
	"strings"

	"github.com/kelindar/column"
	"pgregory.net/rapid"
)

// ---------------------------------------------------------------------------
// Bitmap indexes: specification, predicate (shared by model and the function
// handed to CreateIndex), actions and checks.
// ---------------------------------------------------------------------------

type PredKind uint8

const (
	PLess   PredKind = iota // numeric: v < K
	PGeq                    // numeric: v >= K
	PEven                   // integer: v % 2 == 0
	PEq                     // bytes: v == S
	PPrefix                 // bytes: has prefix S
	PTrue                   // bool column: value is true
	PLenGt                  // bytes: len(v) > K
)

var predNames = [...]string{"<", ">=", "even", "==", "prefix", "true", "len>"}

type IndexSpec struct {
	Name string
	Col  int
	Pred PredKind
	K    int64  // numeric parameter
	S    string // bytes parameter
}

func (s *Schema) renderIndex(ix IndexSpec) string {
	switch ix.Pred {
	case PLess, PGeq, PLenGt:
		return fmt.Sprintf("%s on %s: %s %d", ix.Name, s.Cols[ix.Col].Name, predNames[ix.Pred], ix.K)
	case PEq, PPrefix:
		return fmt.Sprintf("%s on %s: %s %q", ix.Name, s.Cols[ix.Col].Name, predNames[ix.Pred], clipS(ix.S))
	}
	return fmt.Sprintf("%s on %s: %s", ix.Name, s.Cols[ix.Col].Name, predNames[ix.Pred])
}

// numAsFloat converts a canonical numeric value to float64 for comparisons
// (exact for every value the threshold family uses).
func numCompare(k Kind, bits uint64, K int64) int {
	switch {
	case k == KFloat32:
		f := float64(math.Float32frombits(uint32(bits)))
		return cmpFloat(f, float64(K))
	case k == KFloat64:
		return cmpFloat(math.Float64frombits(bits), float64(K))
	case k.Signed():
		v := int64(bits)
		switch {
		case v < K:
			return -1
		case v > K:
			return 1
		}
		return 0
	default:
		if K < 0 {
			return 1
		}
		switch {
		case bits < uint64(K):
			return -1
		case bits > uint64(K):
			return 1
		}
		return 0
	}
}

func cmpFloat(f, k float64) int {
	switch {
	case f < k:
		return -1
	case f > k:
		return 1
	case f == k:
		return 0
	}
	return 2 // NaN: neither < nor >=
}

// evalPred is the model's evaluation of an index predicate on a cell.
func evalPred(k Kind, ix IndexSpec, c Cell) bool {
	if !c.Has {
		return false
	}
	switch ix.Pred {
	case PLess:
		return numCompare(k, c.V.B, ix.K) == -1
	case PGeq:
		r := numCompare(k, c.V.B, ix.K)
		return r == 0 || r == 1
	case PEven:
		return c.V.B%2 == 0
	case PEq:
		return c.V.S == ix.S
	case PPrefix:
		return strings.HasPrefix(c.V.S, ix.S)
	case PTrue:
		return c.V.B != 0
	case PLenGt:
		return int64(len(c.V.S)) > ix.K
	}
	return false
}

// decodeReader turns what an index/trigger callback is given into a model value,
// decoding with the column's own width (DESIGN.md §5).
func decodeReader(k Kind, r column.Reader) Value {
	switch k {
	case KInt, KInt64:
		return Value{B: uint64(int64(r.Int()))}
	case KInt16:
		return Value{B: uint64(int64(int16(r.Uint())))}
	case KInt32:
		return Value{B: uint64(int64(int32(r.Uint())))}
	case KUint, KUint16, KUint32, KUint64:
		return Value{B: uint64(r.Uint())}
	case KFloat32:
		b := r.Bytes()
		return Value{B: uint64(uint32(b[0])<<24 | uint32(b[1])<<16 | uint32(b[2])<<8 | uint32(b[3]))}
	case KFloat64:
		return Value{B: math.Float64bits(r.Float())}
	case KBool:
		if r.Bool() {
			return Value{B: 1}
		}
		return Value{}
	}
	return Value{S: string(r.Bytes())}
}

// indexFunc builds the function handed to CreateIndex.
func indexFunc(k Kind, ix IndexSpec) func(column.Reader) bool {
	return func(r column.Reader) bool {
		if k == KFloat32 && (ix.Pred == PLess || ix.Pred == PGeq) {
			// also exercise Reader.Float on 4-byte values
			f := r.Float()
			c := cmpFloat(f, float64(ix.K))
			if ix.Pred == PLess {
				return c == -1
			}
			return c == 0 || c == 1
		}
		if (k == KString || k == KEnum || k == KKey) && ix.Pred == PEq {
			return r.String() == ix.S
		}
		return evalPred(k, ix, Cell{Has: true, V: decodeReader(k, r)})
	}
}

func genIndexSpec(t *rapid.T, m *Model, name string) (IndexSpec, bool) {
	var cols []int
	for i := range m.Sch.Cols {
		if m.ColLive[i] {
			cols = append(cols, i)
		}
	}
	if len(cols) == 0 {
		return IndexSpec{}, false
	}
	ci := cols[rapid.IntRange(0, len(cols)-1).Draw(t, "ix-col")]
	// favour columns whose merge function changes the length (the index must see the final value)
	for _, c := range cols {
		if mergeChangesLen(m.Sch.Cols[c].Kind, m.Sch.Cols[c].Merge) && rapid.IntRange(0, 2).Draw(t, "ix-on-lenmerge") == 0 {
			ci = c
			break
		}
	}
	k := m.Sch.Cols[ci].Kind
	ix := IndexSpec{Name: name, Col: ci}
	switch {
	case k == KBool:
		ix.Pred = PTrue
	case k.Float():
		ix.Pred = rapid.SampledFrom([]PredKind{PLess, PGeq}).Draw(t, "ix-pred")
		ix.K = int64(rapid.SampledFrom([]int{0, 1, -1, 100, -250}).Draw(t, "ix-k"))
	case k.Numeric():
		ix.Pred = rapid.SampledFrom([]PredKind{PLess, PGeq, PEven}).Draw(t, "ix-pred")
		ix.K = int64(rapid.SampledFrom([]int{0, 1, -1, 5, 100, -250, 65535, 1 << 31}).Draw(t, "ix-k"))
	case k == KRecord:
		ix.Pred = rapid.SampledFrom([]PredKind{PLenGt, PPrefix}).Draw(t, "ix-pred")
		ix.K = int64(rapid.IntRange(4, 6).Draw(t, "ix-k"))
		ix.S = "\x00\x00"
	default:
		ix.Pred = rapid.SampledFrom([]PredKind{PEq, PPrefix, PLenGt}).Draw(t, "ix-pred")
		var alphabet []string
		switch k {
		case KEnum:
			alphabet = enumAlphabet
		case KKey:
			alphabet = []string{"k0", "k1", "k", "p", "u"}
		default:
			alphabet = []string{"", "a", "b", "ab", "zz", "s1", "s", "\x00"}
		}
		ix.S = rapid.SampledFrom(alphabet).Draw(t, "ix-s")
		ix.K = int64(rapid.IntRange(0, 3).Draw(t, "ix-k"))
	}
	return ix, true
}

// IndexState tracks per index what the non-triviality rule needs.
type IndexState struct {
	Spec         IndexSpec
	Members      map[uint32]bool // membership when last checked
	Changed      bool            // membership changed at least once after creation through a later transaction
	BackfillBlks int             // populated blocks at creation
}

func (mc *Machine) modelIndex(ix IndexSpec) map[uint32]bool {
	out := map[uint32]bool{}
	k := mc.Sch.Cols[ix.Col].Kind
	for off, row := range mc.M.Rows {
		if evalPred(k, ix, row[ix.Col]) {
			out[off] = true
		}
	}
	return out
}

func (mc *Machine) createIndexOn(c *column.Collection, ix IndexSpec) error {
	return c.CreateIndex(ix.Name, mc.Sch.Cols[ix.Col].Name, indexFunc(mc.Sch.Cols[ix.Col].Kind, ix))
}

// ActCreateIndex creates an index on the primary (and on extra collections that
// mirror it).
func (mc *Machine) ActCreateIndex(t *rapid.T, mirrors ...*column.Collection) {
	if len(mc.Indexes) >= 4 {
		t.Skip("enough indexes")
	}
	mc.ixSeq++
	name := fmt.Sprintf("ix%d", mc.ixSeq)
	if len(mc.freeIxNames) > 0 && rapid.Bool().Draw(t, "reuse-dropped-name") {
		// an index that was dropped comes back under its old name, possibly on another column / with another rule
		name = mc.freeIxNames[len(mc.freeIxNames)-1]
		mc.freeIxNames = mc.freeIxNames[:len(mc.freeIxNames)-1]
		mc.flag("index-name-re-used")
	}
	ix, ok := genIndexSpec(t, mc.M, name)
	if !ok {
		t.Skip("no column")
	}
	mc.logf("createIndex %s (rows=%d)", mc.Sch.renderIndex(ix), len(mc.M.Rows))
	for _, c := range append([]*column.Collection{mc.C}, mirrors...) {
		if err := mc.createIndexOn(c, ix); err != nil {
			mc.fail(t, "CreateIndex(%s): %v", ix.Name, err)
		}
	}
	blocks := map[uint32]bool{}
	for off := range mc.M.Rows {
		blocks[off>>14] = true
	}
	st := &IndexState{Spec: ix, Members: mc.modelIndex(ix), BackfillBlks: len(blocks)}
	mc.Indexes = append(mc.Indexes, st)
	mc.CheckIndex(t, mc.C, st.Spec, "after CreateIndex")
}

func (mc *Machine) ActDropIndex(t *rapid.T, mirrors ...*column.Collection) {
	if len(mc.Indexes) == 0 {
		t.Skip("no index")
	}
	i := rapid.IntRange(0, len(mc.Indexes)-1).Draw(t, "drop-ix")
	ix := mc.Indexes[i].Spec
	// "DropColumn removes the column (or an index) with the specified name": the other documented way
	viaDropColumn := rapid.IntRange(0, 2).Draw(t, "via-DropColumn") == 0
	mc.logf("dropIndex %s%s", ix.Name, map[bool]string{true: " (with DropColumn)", false: ""}[viaDropColumn])
	for _, c := range append([]*column.Collection{mc.C}, mirrors...) {
		if viaDropColumn {
			c.DropColumn(ix.Name)
			mc.flag("index-dropped-with-DropColumn")
		} else if err := c.DropIndex(ix.Name); err != nil {
			mc.fail(t, "DropIndex(%s): %v", ix.Name, err)
		}
	}
	mc.Indexes = append(mc.Indexes[:i], mc.Indexes[i+1:]...)
	mc.freeIxNames = append(mc.freeIxNames, ix.Name)
	// the name must be gone as a filter: With(missing) selects nothing
	n := -1
	mc.C.Query(func(txn *column.Txn) error { n = txn.With(ix.Name).Count(); return nil })
	if n != 0 {
		mc.fail(t, "With(%s) selects %d rows after DropIndex", ix.Name, n)
	}
}

// readIndex returns the rows an index selects on collection c.
func readIndex(c *column.Collection, name string) (map[uint32]bool, int) {
	out := map[uint32]bool{}
	cnt := 0
	c.Query(func(txn *column.Txn) error {
		sel := txn.With(name)
		cnt = sel.Count()
		return sel.Range(func(idx uint32) { out[idx] = true })
	})
	return out, cnt
}

// CheckIndex compares the full content of one index on collection c with the model.
func (mc *Machine) CheckIndex(t *rapid.T, c *column.Collection, ix IndexSpec, what string) {
	want := mc.modelIndex(ix)
	got, cnt := readIndex(c, ix.Name)
	if d := diffSets(got, want); d != "" {
		mc.fail(t, "%s: index %s: %s", what, mc.Sch.renderIndex(ix), d)
	}
	if cnt != len(want) {
		mc.fail(t, "%s: index %s: With().Count() = %d, predicate holds for %d rows", what, mc.Sch.renderIndex(ix), cnt, len(want))
	}
}

func diffSets(got, want map[uint32]bool) string {
	var extra, missing []uint32
	for k := range got {
		if !want[k] {
			extra = append(extra, k)
		}
	}
	for k := range want {
		if !got[k] {
			missing = append(missing, k)
		}
	}
	if len(extra) == 0 && len(missing) == 0 {
		return ""
	}
	sort.Slice(extra, func(i, j int) bool { return extra[i] < extra[j] })
	sort.Slice(missing, func(i, j int) bool { return missing[i] < missing[j] })
	clipU := func(v []uint32) []uint32 {
		if len(v) > 8 {
			return v[:8]
		}
		return v
	}
	return fmt.Sprintf("selects %d rows, predicate holds for %d; selected but predicate false/row dead: %v; predicate true but not selected: %v",
		len(got), len(want), clipU(extra), clipU(missing))
}

// CheckIndexes checks every index on collection c: fully, and Row.Bool on the given rows.
func (mc *Machine) CheckIndexes(t *rapid.T, c *column.Collection, what string, rows []uint32) {
	for _, st := range mc.Indexes {
		mc.CheckIndex(t, c, st.Spec, what)
		now := mc.modelIndex(st.Spec)
		if c == mc.C {
			if len(now) != len(st.Members) {
				st.Changed = true
			} else {
				for k := range now {
					if !st.Members[k] {
						st.Changed = true
						break
					}
				}
			}
			st.Members = now
		}
		for _, off := range rows {
			if _, live := mc.M.Rows[off]; !live {
				continue
			}
			var got bool
			c.QueryAt(off, func(r column.Row) error { got = r.Bool(st.Spec.Name); return nil })
			if got != now[off] {
				mc.fail(t, "%s: Row.Bool(%s) on row %d = %v, predicate is %v", what, st.Spec.Name, off, got, now[off])
			}
		}
	}
}

// CheckDerived compares a derived collection (replica, restored snapshot, twin)
// with the model: rows, values, count, key lookups and index contents.
func (mc *Machine) CheckDerived(t *rapid.T, c *column.Collection, what string, useAny bool) {
	got, cnt, err := extractRange(c, mc.Sch, mc.M.ColLive, useAny)
	if err != nil {
		mc.fail(t, "%s: full read: %v", what, err)
	}
	if d := mc.M.diffStates(got, what); d != "" {
		mc.fail(t, "%s", d)
	}
	if cnt != mc.M.Count() || c.Count() != mc.M.Count() {
		mc.fail(t, "%s: txn.Count()=%d Count()=%d, model has %d rows", what, cnt, c.Count(), mc.M.Count())
	}
	save := mc.C
	mc.C = c
	mc.CheckKeys(t)
	mc.C = save
	live := mc.M.Live()
	var sample []uint32
	if len(live) > 0 {
		sample = append(sample, live[0], live[len(live)-1], live[len(live)/2])
	}
	mc.CheckIndexes(t, c, what, sample)
}
