package harness

import (
	"bytes"
	"fmt"
	"strings"
	"testing"

	"github.com/kelindar/column"
	"pgregory.net/rapid"
)

// ---------------------------------------------------------------------------
// C08 — a snapshot taken under concurrent commits restores to a consistent cut
// ---------------------------------------------------------------------------

// snapShot is one Snapshot call of a run.
type snapShot struct {
	Buf          bytes.Buffer
	Err          error
	SBegin, SEnd int
	Task         int
}

type snapRun struct {
	*concRun
	Snaps []*snapShot
	Free  bool // free-parallel run: see the rule for hi in checkOneSnap
}

// addSnapshot registers a task that calls Snapshot once (after `before` has run).
func (sr *snapRun) addSnapshot(before func()) *snapShot {
	sn := &snapShot{}
	sr.Snaps = append(sr.Snaps, sn)
	sn.Task = sr.S.Add(fmt.Sprintf("snapshot%d", len(sr.Snaps)), func() {
		if before != nil {
			before()
		}
		sn.SBegin = sr.S.Tick()
		sn.Err = sr.C.Snapshot(&sn.Buf)
		sn.SEnd = sr.S.Tick()
	})
	return sn
}

func startSnapRun(p *concProgram, capacity int) *snapRun {
	sr := &snapRun{concRun: startConcRun(p, capacity)}
	sr.addSnapshot(nil)
	return sr
}

// checkSnapRun evaluates the C08 oracle for every Snapshot call of the run. It returns a
// violation message (or "") and whether the case is non-trivial.
func checkSnapRun(sr *snapRun) (string, bool, []string) {
	var labels []string
	nt := false
	refs, bad := sr.attribute()
	if bad != "" {
		return "", false, nil // C15's business
	}
	for i, sn := range sr.Snaps {
		if sn.Err != nil {
			if len(sr.Snaps) > 1 && strings.Contains(sn.Err.Error(), "another one might be in progress") {
				// two overlapping Snapshot calls: the library documents that one of them is refused
				labels = append(labels, "overlapping-snapshot-refused")
				continue
			}
			return fmt.Sprintf("Snapshot call %d failed while writers were committing: %v", i+1, sn.Err), false, nil
		}
		msg, n, l := checkOneSnap(sr, sn, refs)
		if msg != "" {
			if len(sr.Snaps) > 1 {
				msg = fmt.Sprintf("Snapshot call %d of %d overlapping ones: %s", i+1, len(sr.Snaps), msg)
			}
			return msg, false, nil
		}
		nt = nt || n
		labels = append(labels, l...)
	}
	if len(sr.Snaps) > 1 {
		labels = append(labels, "two-snapshot-calls")
	}
	return "", nt, labels
}

func checkOneSnap(sr *snapRun, sn *snapShot, refs []partRef) (string, bool, []string) {
	var labels []string
	recs := sr.Log.Since(sr.N0)
	sch := *sr.P.Init.Sch
	dst := newCollection(&sch, column.Options{})
	defer dst.Close()
	rerr, badR := guarded(func() error { return dst.Restore(bytes.NewReader(sn.Buf.Bytes())) })
	if badR != "" || rerr != nil {
		return fmt.Sprintf("Restore of the snapshot: err=%v %s", rerr, badR), false, nil
	}
	live := make([]bool, len(sch.Cols))
	for i := range live {
		live[i] = true
	}
	got, _, err := extractRange(dst, sr.P.Init.Sch, live, false)
	if err != nil {
		return "reading the restored snapshot: " + err.Error(), false, nil
	}
	// per block: the applied commit sequence, lo (acknowledged before S began), hi (applied before S returned)
	blocks := map[uint32]bool{}
	for off := range sr.P.Init.M.Rows {
		blocks[off>>14] = true
	}
	for _, ref := range refs {
		blocks[ref.Block] = true
	}
	for off := range got {
		blocks[off>>14] = true
	}
	during := 0
	var openClk, closeClk int
	for _, e := range sr.S.Trace {
		if e.Task != sn.Task {
			continue
		}
		if e.Point == "snapshot:recorder-open" {
			openClk = e.Clock
		}
		if e.Point == "snapshot:pre-close" {
			closeClk = e.Clock
		}
	}
	for i := range recs {
		if sr.Clocks[i] > openClk && sr.Clocks[i] < closeClk {
			during++
		}
	}
	for b := range blocks {
		var idx []int
		for i, ref := range refs {
			if ref.Block == b {
				idx = append(idx, i)
			}
		}
		lo, hi := 0, 0
		for n, i := range idx {
			ref := refs[i]
			if sr.Ack[ref.Task][ref.Txn] != 0 && sr.Ack[ref.Task][ref.Txn] < sn.SBegin {
				lo++
			}
			if !sr.Free && sr.Clocks[i] < sn.SEnd {
				hi++
			}
			// Under real parallelism a commit reaches the snapshot's recorder before it reaches
			// the recording logger (both under the block latch), and Snapshot can return in
			// between: the commit was applied when Snapshot returned although its logical time
			// is later. The sound bound there: its transaction had at least begun.
			if sr.Free && sr.Begin[ref.Task][ref.Txn] < sn.SEnd {
				hi = n + 1
			}
		}
		m := sr.P.Init.M.Clone()
		matched := -1
		for k := 0; k <= len(idx); k++ {
			if k > 0 {
				ref := refs[idx[k-1]]
				applyPart(m, sr.P.Tasks[ref.Task][ref.Txn], sr.Res[ref.Task][ref.Txn], b)
			}
			if k >= lo && k <= hi && blockEqual(m, got, b) {
				matched = k
				break
			}
		}
		if matched < 0 {
			// describe: does it match some k outside the window, or nothing at all?
			m2 := sr.P.Init.M.Clone()
			outside := -1
			for k := 0; k <= len(idx); k++ {
				if k > 0 {
					ref := refs[idx[k-1]]
					applyPart(m2, sr.P.Tasks[ref.Task][ref.Txn], sr.Res[ref.Task][ref.Txn], b)
				}
				if blockEqual(m2, got, b) {
					outside = k
				}
			}
			var rows []string
			for off, row := range got {
				if off>>14 == b {
					rows = append(rows, fmt.Sprintf("%d:{a=%s m=%s s=%s}", off, renderCell(KInt, row[ccA]), renderCell(KInt, row[ccM]), renderCell(KString, row[ccS])))
				}
			}
			if outside >= 0 {
				return fmt.Sprintf("block %d of the restored snapshot equals the primary after %d of its %d commits, but the snapshot must contain the %d acknowledged before it began and nothing applied after it returned (allowed prefix lengths %d..%d)", b, outside, len(idx), lo, lo, hi), false, nil
			}
			return fmt.Sprintf("block %d of the restored snapshot equals the primary after NO prefix of the %d commits applied to it (a commit was lost from the middle, applied partially, twice or out of order); allowed prefix lengths %d..%d; restored rows: %s", b, len(idx), lo, hi, strings.Join(rows, " ")), false, nil
		}
		if matched > lo {
			labels = append(labels, "snapshot-includes-concurrent-commit")
		}
		if matched < hi {
			labels = append(labels, "snapshot-excludes-concurrent-commit")
		}
	}
	if dst.Count() != len(got) {
		return fmt.Sprintf("restored collection: Count()=%d but %d rows are visible", dst.Count(), len(got)), false, nil
	}
	if during > 0 {
		labels = append(labels, "commit-between-recorder-open-and-close")
	}
	return "", during > 0, labels
}

func c08Cfg(t *rapid.T, tasks int) concGenCfg {
	cfg := concGenCfg{Tasks: tasks, MaxTxns: 2, Deletes: true, Puts: true, Inserts: true, Aborts: true}
	if KFActive("f10-inflight-insert-visible") {
		// known finding: reservations of in-flight inserts are visible to snapshots
		if cfg.Inserts {
			CountExcluded("C08", "f10-inflight-insert-visible")
		}
		cfg.Inserts = false
	}
	return cfg
}

func TestC08Sched(t *testing.T) {
	rapid.Check(t, func(t *rapid.T) {
		tasks := rapid.IntRange(2, 4).Draw(t, "writers")
		blocks := rapid.IntRange(1, 3).Draw(t, "blocks")
		init := buildConcInit(blocks, 4)
		p := genConcProgram(t, init, c08Cfg(t, tasks))
		sr := startSnapRun(p, rapid.SampledFrom([]int{1, 1024, 16385}).Draw(t, "capacity"))
		defer sr.Close()
		if rapid.IntRange(0, 3).Draw(t, "second-snapshot") == 0 {
			sr.addSnapshot(nil) // a second, overlapping Snapshot call: refused, or a consistent cut of its own
		}
		var decisions []int
		sr.S.Pick = func(runnable []int, last int) int {
			d := rapid.IntRange(0, len(runnable)-1).Draw(t, "sched")
			decisions = append(decisions, d)
			return d
		}
		sr.ok = sr.S.Run()
		if !sr.ok {
			reportSchedRun(t, "C08", sr.concRun, nil, decisions)
		}
		msg, nt, labels := checkSnapRun(sr)
		if msg != "" {
			t.Fatalf("C08 violated: %s\nprogram:\n%s(+ one task calling Snapshot)\ntrace: %s\ndecisions: %v", msg, p, sr.S.TraceString(), decisions)
		}
		RecordCase("C08", p.String()+"schedule: "+sr.S.TraceString(), nt, dedupe(append(labels, "random-schedule"))...)
	})
}

func c08FixedPrograms() map[string]*concProgram {
	all := fixedPrograms()
	up := func(row uint32, stores ...Store) Step { return Step{Kind: SUpdate, Row: row, Stores: stores} }
	mM := func(d int64) Store { return Store{Col: ccM, Merge: true, Val: Value{B: uint64(d)}} }
	mA := func(d int64) Store { return Store{Col: ccA, Merge: true, Val: Value{B: uint64(d)}} }
	tx := func(steps ...Step) TxnSpec { return TxnSpec{Steps: steps, FailAt: -1} }
	one := buildConcInit(1, 4)
	two := buildConcInit(2, 4)
	mk := func(init *concInit, tasks ...[]TxnSpec) *concProgram {
		p := &concProgram{Init: init, Tasks: tasks}
		for _, txns := range tasks {
			var ys [][]bool
			for _, tx := range txns {
				ys = append(ys, make([]bool, len(tx.Steps)))
			}
			p.Yield = append(p.Yield, ys)
		}
		return p
	}
	_ = all
	return map[string]*concProgram{
		"snapshot + 2 single-block writers on the same block": mk(one,
			[]TxnSpec{tx(up(0, mM(1), mA(1)))},
			[]TxnSpec{tx(up(0, mM(2)), Step{Kind: SDelete, Row: 144})}),
		"snapshot + 1 two-block writer + 1 single-block writer": mk(two,
			[]TxnSpec{tx(up(0, mM(1)), up(16384, mM(1)))},
			[]TxnSpec{tx(up(16384, mM(2), mA(5)))}),
		"snapshot + 1 writer with 2 transactions over 2 blocks": mk(two,
			[]TxnSpec{tx(up(0, mM(1)), up(16384, mM(1))), tx(up(16384, mM(3)), up(0, mA(2)))}),
		"2 snapshots + 1 writer with 2 single-block transactions": mk(one,
			[]TxnSpec{tx(up(0, mM(1))), tx(up(0, mM(3), mA(2)))}),
	}
}

func TestC08Exhaustive(t *testing.T) {
	limit := envInt("VERIF_SCHED_LIMIT", 3000)
	for name, p := range c08FixedPrograms() {
		enum := &dfsEnum{}
		n, ntCount := 0, 0
		complete := true
		for {
			enum.pos = 0
			sr := startSnapRun(p, 1024)
			if strings.HasPrefix(name, "2 snapshots") {
				sr.addSnapshot(nil)
			}
			sr.S.Pick = enum.pick
			sr.ok = sr.S.Run()
			if !sr.ok {
				reportSchedRun(t, "C08", sr.concRun, nil, enum.decisions())
			}
			msg, nt, labels := checkSnapRun(sr)
			if msg != "" {
				path := writeReplay("C08", "TestSchedReplay", map[string]any{"program": name + "\n" + p.String(), "decisions": enum.decisions(), "why": msg, "trace": sr.S.TraceString()})
				t.Fatalf("C08 violated: %s\nconfiguration: %s\nprogram:\n%s\ntrace: %s\ndecisions: %v\nreplay: %s", msg, name, p, sr.S.TraceString(), enum.decisions(), path)
			}
			RecordCase("C08", name+" | schedule: "+sr.S.TraceString(), nt, dedupe(append(labels, "exhaustive:"+name))...)
			if nt {
				ntCount++
			}
			sr.Close()
			n++
			if !enum.next() {
				break
			}
			if n >= limit {
				complete = false
				break
			}
		}
		SetExhaustive("C08", fmt.Sprintf("all interleavings at the commit and snapshot yield points of the fixed configuration %q", name), complete)
		AddCounter("C08", "exhaustive_schedules:"+strings.ReplaceAll(name, " ", "_"), int64(n))
		t.Logf("C08: %q: %d schedules (complete=%v), %d non-trivial", name, n, complete, ntCount)
	}
}
