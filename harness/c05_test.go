package harness

import (
	"bytes"
	"encoding/binary"
	"fmt"
	"os"
	"path/filepath"
	"sort"
	"strings"
	"testing"

	"github.com/kelindar/column/commit"
	"pgregory.net/rapid"
)

// ---------------------------------------------------------------------------
// C05 — commit buffers, commits and logs round-trip every operation sequence
// ---------------------------------------------------------------------------

// bop is one buffer operation as written / as read back.
type bop struct {
	Typ   commit.OpType
	Off   int32
	Val   string // fixed-width values as big-endian bytes; byte strings verbatim
	Fixed int    // 0, 2, 4, 8 = fixed width; -1 = byte string (write side only)
	Swap  string // for merges: the result a first reader pass swaps in ("" = same as Val)
}

func (o bop) String() string {
	v := o.Val
	if len(v) > 12 {
		v = fmt.Sprintf("%x..(%d bytes)", v[:6], len(v))
	} else {
		v = fmt.Sprintf("%x", v)
	}
	s := fmt.Sprintf("%s@%d/w%d=%s", o.Typ, o.Off, o.Fixed, v)
	if o.Typ == commit.Merge {
		s += fmt.Sprintf("->swap(%d bytes)", len(o.Swap))
	}
	return s
}

func opsString(ops []bop) string {
	parts := make([]string, len(ops))
	for i, o := range ops {
		parts[i] = o.String()
	}
	return strings.Join(parts, " ")
}

func writeBop(b *commit.Buffer, o bop, variant int) {
	off := uint32(o.Off)
	switch o.Fixed {
	case 0:
		switch {
		case variant&1 == 1 && o.Typ == commit.PutTrue:
			b.PutBool(off, true)
		case variant&1 == 1 && o.Typ == commit.PutFalse:
			b.PutBool(off, false)
		case variant&2 == 2:
			b.PutAny(o.Typ, off, nil)
		default:
			b.PutOperation(o.Typ, off)
		}
	case 2:
		v := binary.BigEndian.Uint16([]byte(o.Val))
		if variant&1 == 1 {
			b.PutInt16(o.Typ, off, int16(v))
		} else {
			b.PutUint16(o.Typ, off, v)
		}
	case 4:
		v := binary.BigEndian.Uint32([]byte(o.Val))
		if variant&1 == 1 {
			b.PutInt32(o.Typ, off, int32(v))
		} else {
			b.PutUint32(o.Typ, off, v)
		}
	case 8:
		v := binary.BigEndian.Uint64([]byte(o.Val))
		switch variant & 3 {
		case 1:
			b.PutInt64(o.Typ, off, int64(v))
		case 2:
			b.PutInt(o.Typ, off, int(v))
		case 3:
			b.PutUint(o.Typ, off, uint(v))
		default:
			b.PutUint64(o.Typ, off, v)
		}
	default:
		if variant&1 == 1 {
			b.PutString(o.Typ, off, o.Val)
		} else {
			// the caller's slice is scribbled over right after the call: the buffer must hold a copy
			v := []byte(o.Val)
			b.PutBytes(o.Typ, off, v)
			for i := range v {
				v[i] ^= 0xa5
			}
		}
	}
}

type rop struct {
	Typ commit.OpType
	Off int32
	Val string
}

func (o rop) String() string {
	v := o.Val
	if len(v) > 12 {
		v = fmt.Sprintf("%x..(%d bytes)", v[:6], len(v))
	} else {
		v = fmt.Sprintf("%x", v)
	}
	return fmt.Sprintf("%s@%d=%s", o.Typ, o.Off, v)
}

func readAllOps(r *commit.Reader, dst []rop) []rop {
	for r.Next() {
		dst = append(dst, rop{r.Type, r.Offset, string(r.Bytes())})
	}
	return dst
}

func wantOps(ops []bop) []rop {
	out := make([]rop, len(ops))
	for i, o := range ops {
		out[i] = rop{o.Typ, o.Off, o.Val}
	}
	return out
}

func wantBlock(ops []bop, block uint32) []rop {
	var out []rop
	for _, o := range ops {
		if uint32(o.Off)>>14 == block {
			out = append(out, rop{o.Typ, o.Off, o.Val})
		}
	}
	return out
}

func blocksOf(ops []bop) []uint32 {
	seen := map[uint32]bool{}
	var out []uint32
	for _, o := range ops {
		b := uint32(o.Off) >> 14
		if !seen[b] {
			seen[b] = true
			out = append(out, b)
		}
	}
	sort.Slice(out, func(i, j int) bool { return out[i] < out[j] })
	return out
}

func sameOps(got, want []rop) error {
	if len(got) != len(want) {
		return fmt.Errorf("read %d ops, wrote %d\n got: %v\nwant: %v", len(got), len(want), clip(got), clip(want))
	}
	for i := range got {
		if got[i] != want[i] {
			return fmt.Errorf("op #%d differs: got %v want %v", i, got[i], want[i])
		}
	}
	return nil
}

func clip(v []rop) []rop {
	if len(v) > 12 {
		return v[:12]
	}
	return v
}

func readBlock(r *commit.Reader, buf *commit.Buffer, block uint32) []rop {
	var got []rop
	r.Range(buf, commit.Chunk(block), func(r *commit.Reader) {
		got = readAllOps(r, got)
	})
	return got
}

// checkBufferViews checks oracle 1 and 2 on one buffer: whole-buffer read and
// per-block reads equal the written list.
func checkBufferViews(what string, buf *commit.Buffer, ops []bop) error {
	r := commit.NewReader()
	r.Seek(buf)
	if err := sameOps(readAllOps(r, nil), wantOps(ops)); err != nil {
		return fmt.Errorf("%s: Seek+Next: %v", what, err)
	}
	for _, b := range blocksOf(ops) {
		if err := sameOps(readBlock(r, buf, b), wantBlock(ops, b)); err != nil {
			return fmt.Errorf("%s: Range(block %d): %v", what, b, err)
		}
	}
	// A block that was never written yields nothing.
	var none []rop
	r.Range(buf, commit.Chunk(0x7fffff), func(r *commit.Reader) { none = readAllOps(r, none) })
	if len(none) != 0 {
		return fmt.Errorf("%s: Range of unwritten block yields %d ops", what, len(none))
	}
	// The SAME reader, re-used after the per-block passes (as the pooled transaction readers are):
	// a sequential pass, a rewound second pass, and one block again.
	r.Seek(buf)
	if err := sameOps(readAllOps(r, nil), wantOps(ops)); err != nil {
		return fmt.Errorf("%s: Seek+Next with a reader that has ranged over blocks before: %v", what, err)
	}
	r.Rewind()
	if err := sameOps(readAllOps(r, nil), wantOps(ops)); err != nil {
		return fmt.Errorf("%s: Seek, Rewind, Next with a re-used reader: %v", what, err)
	}
	if bs := blocksOf(ops); len(bs) > 0 {
		b := bs[len(bs)-1]
		var twice []rop
		r.Range(buf, commit.Chunk(b), func(r *commit.Reader) {
			readAllOps(r, nil)
			r.Rewind()
			twice = readAllOps(r, twice)
		})
		if err := sameOps(twice, wantBlock(ops, b)); err != nil {
			return fmt.Errorf("%s: Range(block %d), Rewind inside the callback, second pass: %v", what, b, err)
		}
	}
	var chunks []uint32
	buf.RangeChunks(func(c commit.Chunk) { chunks = append(chunks, uint32(c)) })
	seen := map[uint32]bool{}
	for _, c := range chunks {
		seen[c] = true
	}
	for _, b := range blocksOf(ops) {
		if !seen[b] {
			return fmt.Errorf("%s: RangeChunks misses block %d", what, b)
		}
		delete(seen, b)
	}
	if len(seen) != 0 {
		return fmt.Errorf("%s: RangeChunks reports unwritten blocks %v", what, seen)
	}
	if buf.IsEmpty() != (len(ops) == 0) {
		return fmt.Errorf("%s: IsEmpty=%v with %d ops", what, buf.IsEmpty(), len(ops))
	}
	return nil
}

// c05Levels selects how much of the (expensive) serialisation oracles run.
type c05Level int

const (
	c05Cheap c05Level = iota // views + clone + buffer codec + commit codec + swap
	c05Full                  // + log through bytes.Buffer
	c05File                  // + log through a real file
)

var c05TmpDir string

// checkC05 runs all oracles of C05 for one written op list. variant selects the
// typed Put* entry points used.
func checkC05(ops []bop, variant int, level c05Level) error {
	buf := commit.NewBuffer(16)
	buf.Reset("col")
	for _, o := range ops {
		writeBop(buf, o, variant)
	}
	if err := checkBufferViews("buffer", buf, ops); err != nil {
		return err
	}

	// Clone
	clone := buf.Clone()
	if err := checkBufferViews("clone", clone, ops); err != nil {
		return err
	}
	if clone.Column != "col" {
		return fmt.Errorf("clone lost column name: %q", clone.Column)
	}

	// Buffer.WriteTo / ReadFrom
	var enc bytes.Buffer
	if _, err := buf.WriteTo(&enc); err != nil {
		return fmt.Errorf("Buffer.WriteTo: %v", err)
	}
	dec := commit.NewBuffer(0)
	if _, err := dec.ReadFrom(deliver(enc.Bytes(), variant)); err != nil {
		return fmt.Errorf("Buffer.ReadFrom: %v", err)
	}
	if err := checkBufferViews("decoded buffer", dec, ops); err != nil {
		return err
	}
	if dec.Column != "col" {
		return fmt.Errorf("decoded buffer lost column name: %q", dec.Column)
	}
	// A decoded buffer must be appendable like the original (last offset and current block survive).
	if len(ops) > 0 {
		extra := bop{Typ: commit.Put, Off: ops[len(ops)-1].Off + 1, Val: "\x00\x07", Fixed: 2}
		if extra.Off > 0 {
			writeBop(dec, extra, 0)
			if err := checkBufferViews("decoded buffer + append", dec, append(append([]bop{}, ops...), extra)); err != nil {
				return err
			}
		}
	}

	// Commit.WriteTo / ReadFrom for every block; a second, empty-named buffer rides along.
	blocks := blocksOf(ops)
	other := commit.NewBuffer(8)
	other.Reset("other")
	for _, b := range blocks {
		other.PutUint32(commit.Put, b<<14, b)
	}
	// a buffer that has operations in the FIRST block only: for every other commit it is an
	// update buffer without a section in the commit's block, sitting between two that have one
	sparse := commit.NewBuffer(8)
	sparse.Reset("sparse")
	if len(blocks) > 0 {
		sparse.PutUint16(commit.Put, blocks[0]<<14+1, 7)
	}
	commits := make([]commit.Commit, 0, len(blocks))
	for i, b := range blocks {
		// IDs only grow per BLOCK (they are drawn under the block latch); across blocks a log may well hold a
		// larger ID before a smaller one. Every commit here is for another block: descending IDs are legitimate.
		cm := commit.Commit{ID: uint64(50000 - 3*i), Chunk: commit.Chunk(b), Updates: []*commit.Buffer{buf, sparse, other}}
		commits = append(commits, cm)
		var w bytes.Buffer
		if _, err := cm.WriteTo(&w); err != nil {
			return fmt.Errorf("Commit.WriteTo: %v", err)
		}
		var back commit.Commit
		if _, err := back.ReadFrom(deliver(w.Bytes(), variant)); err != nil {
			return fmt.Errorf("Commit.ReadFrom(block %d): %v", b, err)
		}
		if err := checkCommitEquals(&back, cm.ID, b, ops); err != nil {
			return fmt.Errorf("commit codec: %v", err)
		}
		// Clone of a commit (what commit.Channel hands to consumers); whole-buffer
		// copies, so only for the first and last few blocks of many-block cases
		if i >= 2 && i < len(blocks)-2 {
			continue
		}
		cl := cm.Clone()
		if cl.Chunk != cm.Chunk {
			return fmt.Errorf("Commit.Clone changed the block: %d != %d", cl.Chunk, cm.Chunk)
		}
		if len(cl.Updates) != 3 {
			return fmt.Errorf("Commit.Clone has %d buffers, want 3", len(cl.Updates))
		}
		r := commit.NewReader()
		if err := sameOps(readBlock(r, cl.Updates[0], b), wantBlock(ops, b)); err != nil {
			return fmt.Errorf("Commit.Clone block %d: %v", b, err)
		}
	}

	// Log.Append x n / Range
	if level >= c05Full && len(blocks) > 0 {
		var store bytes.Buffer
		log := commit.Open(&store)
		for _, cm := range commits {
			if err := log.Append(cm); err != nil {
				return fmt.Errorf("Log.Append: %v", err)
			}
		}
		if err := checkLog(commit.Open(deliver(store.Bytes(), variant)), commits, blocks, ops); err != nil {
			return fmt.Errorf("log (memory): %v", err)
		}
	}
	if level >= c05File && len(blocks) > 0 {
		name := filepath.Join(c05TmpDir, "c05.log")
		os.Remove(name)
		log, err := commit.OpenFile(name)
		if err != nil {
			return fmt.Errorf("OpenFile: %v", err)
		}
		for _, cm := range commits {
			if err := log.Append(cm); err != nil {
				return fmt.Errorf("Log.Append(file): %v", err)
			}
		}
		log.Close()
		back, err := commit.OpenFile(name)
		if err != nil {
			return fmt.Errorf("OpenFile(2): %v", err)
		}
		err = checkLog(back, commits, blocks, ops)
		back.Close()
		os.Remove(name)
		if err != nil {
			return fmt.Errorf("log (file): %v", err)
		}
	}

	// Swap pass: a first per-block reader pass replaces every merge by its result
	// (as the column Apply functions do); a second pass must see, per offset, the
	// same sequence with each merge turned into a put of the result. The same on
	// buffers that went through the buffer codec and the commit codec first.
	var enc2 bytes.Buffer
	if _, err := buf.WriteTo(&enc2); err != nil {
		return err
	}
	dec2 := commit.NewBuffer(0)
	if _, err := dec2.ReadFrom(deliver(enc2.Bytes(), variant)); err != nil {
		return err
	}
	var decodedCommits []*commit.Buffer
	for i, b := range blocks {
		if i >= 2 && i < len(blocks)-2 {
			continue
		}
		cm := commit.Commit{ID: 9, Chunk: commit.Chunk(b), Updates: []*commit.Buffer{buf}}
		var w bytes.Buffer
		if _, err := cm.WriteTo(&w); err != nil {
			return err
		}
		var back commit.Commit
		if _, err := back.ReadFrom(deliver(w.Bytes(), variant)); err != nil {
			return err
		}
		decodedCommits = append(decodedCommits, back.Updates[0])
		_ = b
	}
	if err := checkSwap(buf, ops, blocks); err != nil {
		return err
	}
	if err := checkSwap(dec2, ops, blocks); err != nil {
		return fmt.Errorf("on a buffer that went through Buffer.WriteTo/ReadFrom: %v", err)
	}
	k := 0
	for i, b := range blocks {
		if i >= 2 && i < len(blocks)-2 {
			continue
		}
		var part []bop
		for _, o := range ops {
			if uint32(o.Off)>>14 == b {
				part = append(part, o)
			}
		}
		if err := checkSwap(decodedCommits[k], part, []uint32{b}); err != nil {
			return fmt.Errorf("on block %d of a commit that went through Commit.WriteTo/ReadFrom: %v", b, err)
		}
		k++
	}
	// A clone - of a buffer or of a whole commit - shares nothing with what it was taken from: the
	// original goes back to the transaction pool, is Reset and filled by the next transaction while a
	// logger, a channel consumer or a snapshot recorder still holds the clone.
	orig := commit.NewBuffer(16)
	orig.Reset("col")
	for _, o := range ops {
		writeBop(orig, o, variant)
	}
	held := orig.Clone()
	cm := commit.Commit{ID: 7, Updates: []*commit.Buffer{orig}}
	if len(blocks) > 0 {
		cm.Chunk = commit.Chunk(blocks[0])
	}
	heldCommit := cm.Clone()
	orig.Reset("next")
	for i := 0; i < len(blocks)+3; i++ {
		orig.PutUint64(commit.Put, uint32(i)*2*16384+7, 0xdeadbeefdeadbeef)
	}
	if err := checkBufferViews("clone, after the original buffer was reset and re-used", held, ops); err != nil {
		return err
	}
	if len(heldCommit.Updates) != 1 {
		return fmt.Errorf("Commit.Clone has %d buffers, the commit had 1", len(heldCommit.Updates))
	}
	if err := checkBufferViews("buffer of a Commit.Clone, after the original buffer was reset and re-used", heldCommit.Updates[0], ops); err != nil {
		return err
	}
	return nil
}

func checkCommitEquals(back *commit.Commit, id uint64, block uint32, ops []bop) error {
	if back.ID != id || uint32(back.Chunk) != block {
		return fmt.Errorf("decoded commit has id=%d block=%d, want id=%d block=%d", back.ID, back.Chunk, id, block)
	}
	if len(back.Updates) != 3 {
		return fmt.Errorf("decoded commit has %d buffers, want 3", len(back.Updates))
	}
	if back.Updates[0].Column != "col" || back.Updates[1].Column != "sparse" || back.Updates[2].Column != "other" {
		return fmt.Errorf("decoded commit column names %q,%q,%q", back.Updates[0].Column, back.Updates[1].Column, back.Updates[2].Column)
	}
	r := commit.NewReader()
	if err := sameOps(readBlock(r, back.Updates[0], block), wantBlock(ops, block)); err != nil {
		return fmt.Errorf("block %d: %v", block, err)
	}
	oth := readBlock(r, back.Updates[2], block)
	if len(oth) != 1 || oth[0].Off != int32(block<<14) || oth[0].Typ != commit.Put {
		return fmt.Errorf("block %d: companion buffer (behind a buffer that may have no section in this block) decoded as %v", block, oth)
	}
	first := uint32(0x7fffffff)
	for _, b := range blocksOf(ops) {
		if b < first {
			first = b
		}
	}
	sp := readBlock(r, back.Updates[1], block)
	if (block == first) != (len(sp) == 1) || (len(sp) == 1 && sp[0].Off != int32(first<<14+1)) {
		return fmt.Errorf("block %d: the buffer that only has an operation in block %d decoded as %v", block, first, sp)
	}
	// the decoded commit holds nothing of other blocks
	for _, b := range blocksOf(ops) {
		if b != block {
			if got := readBlock(r, back.Updates[0], b); len(got) != 0 {
				return fmt.Errorf("decoded commit for block %d yields %d ops of block %d", block, len(got), b)
			}
		}
	}
	return nil
}

func checkLog(log *commit.Log, commits []commit.Commit, blocks []uint32, ops []bop) error {
	i := 0
	var kept []commit.Commit
	err := log.Range(func(cm commit.Commit) error {
		if i >= len(commits) {
			return fmt.Errorf("log yields more than the %d appended commits", len(commits))
		}
		if err := checkCommitEquals(&cm, commits[i].ID, blocks[i], ops); err != nil {
			return fmt.Errorf("commit #%d: %v", i, err)
		}
		kept = append(kept, cm)
		i++
		return nil
	})
	if err != nil {
		return err
	}
	if i != len(commits) {
		return fmt.Errorf("log yields %d of %d appended commits", i, len(commits))
	}
	// a consumer may keep the commits it was handed: they must still read the same after Range returned
	for k := range kept {
		if err := checkCommitEquals(&kept[k], commits[k].ID, blocks[k], ops); err != nil {
			return fmt.Errorf("commit #%d, read again after Range returned (a consumer kept it): %v", k, err)
		}
	}
	return nil
}

func swapResult(o bop) string {
	if o.Swap == "" {
		return o.Val
	}
	return o.Swap
}

func checkSwap(buf *commit.Buffer, ops []bop, blocks []uint32) error {
	hasMerge := false
	for _, o := range ops {
		if o.Typ == commit.Merge && o.Fixed != 0 {
			hasMerge = true
		}
	}
	if !hasMerge {
		return nil
	}
	r := commit.NewReader()
	// pass 1, block by block in ascending order (the order commits are applied)
	for _, b := range blocks {
		// results to swap in for this block's merges, in write order
		var results []bop
		for _, o := range ops {
			if uint32(o.Off)>>14 == b && o.Typ == commit.Merge && o.Fixed != 0 {
				results = append(results, o)
			}
		}
		k := 0
		var perr error
		r.Range(buf, commit.Chunk(b), func(r *commit.Reader) {
			for r.Next() {
				if r.Type != commit.Merge {
					continue
				}
				if k >= len(results) {
					// a merge we did not expect (can only be an appended op seen again); leave it
					continue
				}
				o := results[k]
				if r.Offset != o.Off {
					perr = fmt.Errorf("swap pass: merge #%d of block %d at offset %d, expected %d", k, b, r.Offset, o.Off)
					return
				}
				k++
				res := swapResult(o)
				switch o.Fixed {
				case 2:
					r.SwapUint16(binary.BigEndian.Uint16([]byte(res)))
				case 4:
					r.SwapUint32(binary.BigEndian.Uint32([]byte(res)))
				case 8:
					r.SwapUint64(binary.BigEndian.Uint64([]byte(res)))
				default:
					r.SwapBytes([]byte(res))
				}
			}
		})
		if perr != nil {
			return perr
		}
		if k != len(results) {
			return fmt.Errorf("swap pass: saw %d of %d merges in block %d", k, len(results), b)
		}
	}
	// pass 2: per offset, same sequence with merges turned into puts of the result
	want := map[int32][]rop{}
	for _, o := range ops {
		w := rop{o.Typ, o.Off, o.Val}
		if o.Typ == commit.Merge && o.Fixed != 0 {
			w = rop{commit.Put, o.Off, swapResult(o)}
		}
		want[o.Off] = append(want[o.Off], w)
	}
	got := map[int32][]rop{}
	for _, b := range blocks {
		for _, o := range readBlock(r, buf, b) {
			if o.Typ == commit.Skip {
				continue
			}
			if uint32(o.Off)>>14 != b {
				return fmt.Errorf("after swap: Range(block %d) yields offset %d of another block", b, o.Off)
			}
			got[o.Off] = append(got[o.Off], o)
		}
	}
	for off, w := range want {
		if err := sameOps(got[off], w); err != nil {
			return fmt.Errorf("after swap, offset %d: %v", off, err)
		}
	}
	for off := range got {
		if _, ok := want[off]; !ok {
			return fmt.Errorf("after swap: offset %d appears but was never written", off)
		}
	}
	// and the same through a clone and the commit codec (what loggers/replicas get)
	for i, b := range blocks {
		if i >= 2 && i < len(blocks)-2 {
			continue
		}
		cm := commit.Commit{ID: 7, Chunk: commit.Chunk(b), Updates: []*commit.Buffer{buf}}
		var w bytes.Buffer
		if _, err := cm.WriteTo(&w); err != nil {
			return err
		}
		var back commit.Commit
		if _, err := back.ReadFrom(deliver(w.Bytes(), len(ops))); err != nil {
			return fmt.Errorf("after swap: Commit.ReadFrom: %v", err)
		}
		for _, view := range []*commit.Buffer{back.Updates[0], buf.Clone()} {
			g := map[int32][]rop{}
			for _, o := range readBlock(r, view, b) {
				if o.Typ != commit.Skip {
					g[o.Off] = append(g[o.Off], o)
				}
			}
			for off, wnt := range want {
				if uint32(off)>>14 != b {
					continue
				}
				if err := sameOps(g[off], wnt); err != nil {
					return fmt.Errorf("after swap, through codec/clone, offset %d: %v", off, err)
				}
			}
		}
	}
	return nil
}

// f15Trigger reports whether the op list contains the trigger of known finding
// F15: a byte-string merge whose swapped result has a different length, followed
// by a later operation on the same offset.
func f15Trigger(ops []bop) bool {
	for i, o := range ops {
		if o.Typ == commit.Merge && o.Fixed == -1 && len(swapResult(o)) != len(o.Val) {
			for _, p := range ops[i+1:] {
				if p.Off == o.Off {
					return true
				}
			}
		}
	}
	return false
}

// neutraliseF15 makes every differing-length swap that has a later op on the same
// offset a same-length swap (so the known finding is excluded by construction).
func neutraliseF15(ops []bop) []bop {
	out := append([]bop{}, ops...)
	for i, o := range out {
		if o.Typ == commit.Merge && o.Fixed == -1 && len(swapResult(o)) != len(o.Val) {
			for _, p := range out[i+1:] {
				if p.Off == o.Off {
					out[i].Swap = strings.Repeat("s", len(o.Val))
					break
				}
			}
		}
	}
	return out
}

// c05Nontrivial: at least two of {negative delta, block switch, 3/4/5-byte varint
// delta, interleaved blocks, swap with different length}.
func c05Classify(ops []bop) (nontrivial bool, labels []string) {
	var neg, sw, big, inter, difflen bool
	last := int32(0)
	seenBlocks := map[uint32]int{}
	lastBlock := uint32(0xffffffff)
	for _, o := range ops {
		d := int64(o.Off) - int64(last)
		if d < 0 {
			neg = true
		}
		if d >= 1<<14 {
			big = true
		}
		b := uint32(o.Off) >> 14
		if b != lastBlock {
			if lastBlock != 0xffffffff {
				sw = true
			}
			seenBlocks[b]++
			if seenBlocks[b] > 1 {
				inter = true
			}
			lastBlock = b
		}
		if o.Typ == commit.Merge && o.Fixed == -1 && len(swapResult(o)) != len(o.Val) {
			difflen = true
		}
		last = o.Off
	}
	n := 0
	for name, f := range map[string]bool{"neg-delta": neg, "block-switch": sw, "varint>=3": big, "interleaved-blocks": inter, "swap-difflen": difflen} {
		if f {
			n++
			labels = append(labels, name)
		}
	}
	sort.Strings(labels)
	return n >= 2, labels
}

// ---- exhaustive part --------------------------------------------------------

type c05Shape struct {
	name  string
	typ   commit.OpType
	fixed int
	val   string
	swap  string
}

type c05Move struct {
	name string
	next func(cur int32) int32
}

func c05Alphabet() ([]c05Shape, []c05Move) {
	shapes := []c05Shape{
		{"delete", commit.Delete, 0, "", ""},
		{"insert", commit.Insert, 0, "", ""},
		{"true", commit.PutTrue, 0, "", ""},
		{"put2", commit.Put, 2, "\x12\x34", ""},
		{"put8", commit.Put, 8, "\xff\xfe\xfd\xfc\x00\x01\x02\x03", ""},
		{"merge4", commit.Merge, 4, "\x00\x00\x00\x05", "\xde\xad\xbe\xef"},
		{"putS", commit.Put, -1, "hello", ""},
		{"mergeS=", commit.Merge, -1, "abc", "xyz"},
		{"mergeS+", commit.Merge, -1, "abc", "abcdef"},
		{"putS0", commit.Put, -1, "", ""},
	}
	clamp := func(v int64) int32 {
		if v < 0 {
			return 0
		}
		if v > 0x7fffffff {
			return 0x7fffffff
		}
		return int32(v)
	}
	moves := []c05Move{
		{"same", func(c int32) int32 { return c }},
		{"+1", func(c int32) int32 { return clamp(int64(c) + 1) }},
		{"+100", func(c int32) int32 { return clamp(int64(c) + 100) }},
		{"+200", func(c int32) int32 { return clamp(int64(c) + 200) }},
		{"+16384", func(c int32) int32 { return clamp(int64(c) + 16384) }},
		{"+3M", func(c int32) int32 { return clamp(int64(c) + 3<<20) }},
		{"-3", func(c int32) int32 { return clamp(int64(c) - 3) }},
		{"to5", func(c int32) int32 { return 5 }},
		// exact boundaries of the variable-length offset delta (7 bits per byte)
		{"+2^7", func(c int32) int32 { return clamp(int64(c) + 1<<7) }},
		{"+2^14-1", func(c int32) int32 { return clamp(int64(c) + 1<<14 - 1) }},
		{"+2^21", func(c int32) int32 { return clamp(int64(c) + 1<<21) }},
		{"+2^28", func(c int32) int32 { return clamp(int64(c) + 1<<28) }},
	}
	return shapes, moves
}

type c05Letter struct {
	s c05Shape
	m c05Move
}

func c05Letters(nShapes, nMoves int) []c05Letter {
	shapes, moves := c05Alphabet()
	if nShapes > len(shapes) {
		nShapes = len(shapes)
	}
	if nMoves > len(moves) {
		nMoves = len(moves)
	}
	var out []c05Letter
	for _, s := range shapes[:nShapes] {
		for _, m := range moves[:nMoves] {
			out = append(out, c05Letter{s, m})
		}
	}
	return out
}

func c05FailReplay(t *testing.T, ops []bop, variant int, err error) {
	t.Helper()
	path := writeReplay("C05", "TestC05Replay", map[string]any{"ops": ops, "variant": variant, "error": err.Error()})
	t.Fatalf("C05 violated: %v\nops: %s\nreplay: %s", err, opsString(ops), path)
}

// enumerate all sequences of exactly n letters, starting at each of the given start offsets.
func c05Enumerate(t *testing.T, letters []c05Letter, n int, starts []int32, f15 bool) (count int) {
	idx := make([]int, n)
	ops := make([]bop, n)
	for {
		for _, start := range starts {
			cur := start
			for i := 0; i < n; i++ {
				l := letters[idx[i]]
				cur = l.m.next(cur)
				ops[i] = bop{Typ: l.s.typ, Off: cur, Val: l.s.val, Fixed: l.s.fixed, Swap: l.s.swap}
			}
			use := ops
			if f15 && f15Trigger(ops) {
				CountExcluded("C05", "f15-difflen-merge-reorder")
				use = neutraliseF15(ops)
			}
			count++
			level := c05Cheap
			if count%64 == 0 {
				level = c05Full
			}
			if err := checkC05(use, count%4, level); err != nil {
				c05FailReplay(t, use, count%4, err)
			}
			nt, labels := c05Classify(use)
			RecordCase("C05", opsString(use), nt, labels...)
		}
		// next index vector
		i := n - 1
		for ; i >= 0; i-- {
			idx[i]++
			if idx[i] < len(letters) {
				break
			}
			idx[i] = 0
		}
		if i < 0 {
			return
		}
	}
}

func TestC05Exhaustive(t *testing.T) {
	c05TmpDir = t.TempDir()
	f15 := KFActive("f15-difflen-merge-reorder")
	starts := []int32{0, 16383, 40000}
	full := c05Letters(10, 12) // 120 letters (the last four moves are the exact length boundaries of the offset delta)
	total := 0
	maxLen := 2
	for n := 1; n <= 2; n++ {
		total += c05Enumerate(t, full, n, starts, f15)
	}
	if thorough() {
		maxLen = 3
		total += c05Enumerate(t, c05Letters(10, 8), 3, starts, f15) // 80 letters
	}
	// one level deeper over a smaller alphabet
	small := c05Letters(9, 3)[:] // 27 letters: all but the empty string x {same,+1,+100}
	shapes, moves := c05Alphabet()
	small = small[:0]
	for _, si := range []int{0, 1, 3, 5, 6, 8} { // delete insert put2 merge4 putS mergeS+
		for _, mi := range []int{0, 1, 4, 6} { // same +1 +16384 -3
			small = append(small, c05Letter{shapes[si], moves[mi]})
		}
	}
	total += c05Enumerate(t, small, maxLen+1, []int32{0, 16383}, f15)
	SetExhaustive("C05", fmt.Sprintf("all sequences of length<=2 over %d letters (10 op shapes x 12 offset moves incl. the exact 2^7/2^14/2^21/2^28 delta boundaries) from 3 start offsets, length<=%d over the 80 letters without the boundary moves, and length %d over %d letters", len(full), maxLen, maxLen+1, len(small)), true)
	AddCounter("C05", "exhaustive_sequences", int64(total))
	t.Logf("C05 exhaustive: %d sequences", total)
}

// ---- random part ------------------------------------------------------------

func genC05Ops(t *rapid.T, maxLen int) []bop {
	n := rapid.IntRange(1, maxLen).Draw(t, "n")
	ops := make([]bop, 0, n)
	cur := int32(rapid.SampledFrom([]int{0, 0, 1, 63, 16383, 16384, 40000, 1 << 21, 0x7ffffff0}).Draw(t, "start"))
	for i := 0; i < n; i++ {
		// move
		var nxt int64
		switch rapid.IntRange(0, 12).Draw(t, "move") {
		case 12:
			// exactly at / next to a length boundary of the variable-length delta
			nxt = int64(cur) + int64(1)<<rapid.SampledFrom([]int{7, 14, 21, 28}).Draw(t, "boundary") + int64(rapid.IntRange(-1, 1).Draw(t, "adj"))
		case 0:
			nxt = int64(cur)
		case 1, 2:
			nxt = int64(cur) + 1
		case 3:
			nxt = int64(cur) + int64(rapid.IntRange(2, 127).Draw(t, "d"))
		case 4:
			nxt = int64(cur) + int64(rapid.IntRange(128, 16383).Draw(t, "d"))
		case 5:
			nxt = int64(cur) + int64(rapid.IntRange(16384, 1<<21-1).Draw(t, "d"))
		case 6:
			nxt = int64(cur) + int64(rapid.IntRange(1<<21, 1<<29).Draw(t, "d"))
		case 7:
			nxt = int64(cur) - int64(rapid.IntRange(1, 200).Draw(t, "d"))
		case 8:
			nxt = int64(cur) - int64(rapid.IntRange(16384, 1<<22).Draw(t, "d"))
		case 9:
			nxt = int64(rapid.IntRange(0, 16383).Draw(t, "abs0")) // back to block 0
		case 10:
			nxt = int64(rapid.IntRange(0, 5).Draw(t, "blk"))<<14 + int64(rapid.IntRange(0, 16383).Draw(t, "in"))
		default:
			// revisit an offset used before
			if len(ops) > 0 {
				nxt = int64(ops[rapid.IntRange(0, len(ops)-1).Draw(t, "prev")].Off)
			}
		}
		if nxt < 0 {
			nxt = 0
		}
		if nxt > 0x7fffffff {
			nxt = 0x7fffffff
		}
		cur = int32(nxt)
		o := bop{Off: cur}
		switch rapid.IntRange(0, 9).Draw(t, "shape") {
		case 0:
			o.Typ, o.Fixed = commit.Delete, 0
		case 1:
			o.Typ, o.Fixed = commit.Insert, 0
		case 2:
			o.Typ, o.Fixed = commit.PutTrue, 0
		case 3, 4, 5:
			o.Typ = rapid.SampledFrom([]commit.OpType{commit.Put, commit.Put, commit.Merge}).Draw(t, "typ")
			o.Fixed = rapid.SampledFrom([]int{2, 4, 8}).Draw(t, "w")
			o.Val = string(rapid.SliceOfN(rapid.Byte(), o.Fixed, o.Fixed).Draw(t, "v"))
			if o.Typ == commit.Merge {
				o.Swap = string(rapid.SliceOfN(rapid.Byte(), o.Fixed, o.Fixed).Draw(t, "swap"))
			}
		default:
			o.Typ = rapid.SampledFrom([]commit.OpType{commit.Put, commit.Put, commit.Merge}).Draw(t, "typ")
			o.Fixed = -1
			o.Val = genBytesLen(t, "v")
			if o.Typ == commit.Merge {
				if rapid.Bool().Draw(t, "samelen") {
					o.Swap = strings.Repeat("r", len(o.Val))
				} else {
					o.Swap = genBytesLen(t, "swap")
				}
				if o.Swap == "" {
					o.Swap = o.Val // "" means "same as Val"; keep explicit empties representable
				}
			}
		}
		ops = append(ops, o)
	}
	return ops
}

func genBytesLen(t *rapid.T, label string) string {
	switch rapid.IntRange(0, 39).Draw(t, label+"-class") {
	case 0, 1:
		return ""
	case 2:
		n := rapid.SampledFrom([]int{127, 128, 255, 256, 257}).Draw(t, label+"-len")
		return strings.Repeat(string(rune('a'+n%26)), n)
	case 3:
		n := rapid.SampledFrom([]int{65534, 65535}).Draw(t, label+"-biglen")
		return strings.Repeat(string(rune('a'+n%26)), n)
	case 4:
		return string(rapid.SliceOfN(rapid.Byte(), 100, 400).Draw(t, label))
	default:
		return string(rapid.SliceOfN(rapid.Byte(), 0, 12).Draw(t, label))
	}
}

func TestC05Random(t *testing.T) {
	c05TmpDir = t.TempDir()
	f15 := KFActive("f15-difflen-merge-reorder")
	n := 0
	rapid.Check(t, func(t *rapid.T) {
		ops := genC05Ops(t, 300)
		variant := rapid.IntRange(0, 3).Draw(t, "variant")
		if f15 && f15Trigger(ops) {
			CountExcluded("C05", "f15-difflen-merge-reorder")
			ops = neutraliseF15(ops)
		}
		n++
		level := c05Cheap
		if n%8 == 0 {
			level = c05Full
		}
		if n%64 == 0 {
			level = c05File
		}
		if err := checkC05(ops, variant, level); err != nil {
			t.Fatalf("C05 violated: %v\nops: %s", err, opsString(ops))
		}
		nt, labels := c05Classify(ops)
		RecordCase("C05", opsString(ops), nt, labels...)
	})
}

// TestC05Replay re-runs a saved exhaustive-part failure (JSON replay file).
func TestC05Replay(t *testing.T) {
	var rp struct {
		Ops     []bop `json:"ops"`
		Variant int   `json:"variant"`
	}
	if !loadReplay(t, &rp) {
		t.Skip("no replay file")
	}
	c05TmpDir = t.TempDir()
	if err := checkC05(rp.Ops, rp.Variant, c05File); err != nil {
		t.Fatalf("C05 violated: %v\nops: %s", err, opsString(rp.Ops))
	}
}

// ---- known finding F15 ---------------------------------------------------------

func init() {
	registerKF("f15-difflen-merge-reorder", "C05,C03,C06,C19",
		"a byte-string merge whose swapped-in result has a different length is re-appended at the end of the buffer, so a later operation on the same offset is read before it (put after merge is reordered)",
		func() (bool, string) {
			ops := []bop{
				{Typ: commit.Merge, Off: 5, Val: "abc", Fixed: -1, Swap: "abcdef"},
				{Typ: commit.Put, Off: 5, Val: "zz", Fixed: -1},
			}
			c05TmpDir = os.TempDir()
			if err := checkC05(ops, 0, c05Cheap); err != nil {
				return true, err.Error()
			}
			return false, ""
		})
}

// TestC05Big: buffers whose payload crosses the 1 MiB block size of the s2 stream that
// commit.Log writes through (and multiples of it): a reader behind such a stream gets the
// payload of ONE commit in several pieces. Sequences of large byte strings (30000..65535
// bytes, total around 1, 2, 3 MiB +- 70000) in one or two blocks, some of them merges, go
// through every view of checkC05 incl. Log.Append/Range in memory and on a file.
func TestC05Big(t *testing.T) {
	c05TmpDir = t.TempDir()
	rapid.Check(t, func(t *rapid.T) {
		target := rapid.SampledFrom([]int{1 << 20, 1 << 20, 2 << 20, 3 << 20}).Draw(t, "around") + rapid.IntRange(-70000, 70000).Draw(t, "delta")
		off := int32(rapid.SampledFrom([]int{0, 100, 16380, 16384, 40000}).Draw(t, "start"))
		var ops []bop
		for total := 0; total < target; {
			n := rapid.IntRange(30000, 65535).Draw(t, "len")
			if target-total < 65535 {
				n = target - total
			}
			o := bop{Typ: commit.Put, Off: off, Fixed: -1, Val: strings.Repeat(string(rune('a'+len(ops)%26)), n)}
			if rapid.IntRange(0, 5).Draw(t, "merge") == 0 {
				o.Typ = commit.Merge
				o.Swap = strings.Repeat("#", n) // same length: stays clear of known finding f15
			}
			ops = append(ops, o)
			total += n
			off += int32(rapid.SampledFrom([]int{1, 1, 2, 130}).Draw(t, "move"))
			if rapid.IntRange(0, 39).Draw(t, "next-block") == 0 {
				off += 16384 // rarely: the payload of ONE block's commit must exceed the stream block
			}
			if rapid.IntRange(0, 7).Draw(t, "small") == 0 {
				ops = append(ops, bop{Typ: commit.Put, Off: off, Val: "\x00\x01\x02\x03", Fixed: 4})
				off++
			}
		}
		if err := checkC05(ops, rapid.IntRange(0, 3).Draw(t, "variant"), c05File); err != nil {
			t.Fatalf("C05 violated (payload of %d bytes, crossing the stream's 1 MiB block size): %v\nops: %s", target, err, opsString(ops))
		}
		RecordCase("C05", fmt.Sprintf("big payload %d bytes: %s", target, opsString(ops)), true, "payload-crosses-stream-block")
	})
}
