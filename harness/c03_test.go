package harness

import (
	"bytes"
	"fmt"
	"sort"
	"testing"

	"github.com/kelindar/column"
	"pgregory.net/rapid"
)

// ---------------------------------------------------------------------------
// C03 — bitmap indexes always equal their predicate over the current values
// ---------------------------------------------------------------------------

func touchedRows(eff *TxnEffect, max int) []uint32 {
	rows := make([]uint32, 0, len(eff.Touched))
	for off := range eff.Touched {
		rows = append(rows, off)
	}
	sort.Slice(rows, func(i, j int) bool { return rows[i] < rows[j] })
	if len(rows) > max {
		rows = rows[:max]
	}
	return rows
}

// replayAll replays recorded commits (cloned buffers) in emission order.
func (mc *Machine) replayAll(t *rapid.T, dst *column.Collection, commits []recCommit, what string) {
	for _, rc := range commits {
		cl := rc.Clone.Clone() // replay consumes/rewrites buffers: keep the record intact
		cl.ID = rc.ID
		if err := dst.Replay(cl); err != nil {
			mc.fail(t, "%s: Replay of commit #%d failed: %v", what, rc.Seq, err)
		}
	}
}

// snapshotRestore takes a snapshot of src and restores it into a fresh collection.
func (mc *Machine) snapshotRestore(t *rapid.T, src *column.Collection, capacity int, before func(c *column.Collection)) *column.Collection {
	var buf bytes.Buffer
	if err := src.Snapshot(&buf); err != nil {
		mc.fail(t, "Snapshot failed: %v", err)
	}
	sch := *mc.Sch
	if capacity > 0 {
		sch.Capacity = capacity
	}
	dst := newCollectionLive(&sch, mc.M.ColLive, column.Options{})
	if before != nil {
		before(dst)
	}
	if err := dst.Restore(deliver(buf.Bytes(), len(buf.Bytes())>>2)); err != nil {
		dst.Close()
		mc.fail(t, "Restore failed: %v", err)
	}
	return dst
}

func TestC03(t *testing.T) {
	rapid.Check(t, func(t *rapid.T) {
		sch := genSchema(t, SchemaCfg{Key: 1, Merges: true, EnsureLenMerge: true, MinCols: 1, MaxCols: 4})
		log := &recLogger{}
		mc := NewMachine("C03", sch, column.Options{Writer: log})
		defer mc.Close()
		defer mc.Guard(t)
		cfg := TxnCfg{Prop: "C03", MaxSteps: 10, Peeks: true, Rollback: true, Deletes: true, Inserts: true, Merges: true, OwnUpdates: true, KeyOps: true, Direct: true,
			NoStoreOnDel: KFActive("f11-store-and-delete-same-txn"), NoOpAfterLenMerge: KFActive("f15-difflen-merge-reorder")}
		t.Repeat(map[string]func(*rapid.T){
			"txn": func(t *rapid.T) {
				eff, committed := mc.ActTxn(t, cfg)
				if committed {
					mc.CheckIndexes(t, mc.C, "after a transaction", touchedRows(eff, 12))
				} else {
					mc.CheckIndexes(t, mc.C, "after a rolled-back transaction", nil)
				}
			},
			"prefill": func(t *rapid.T) {
				mc.prefillAction(t)
				mc.CheckIndexes(t, mc.C, "after prefill", nil)
			},
			"bulkDelete": func(t *rapid.T) {
				mc.ActBulkDelete(t)
				mc.CheckIndexes(t, mc.C, "after bulk delete", nil)
			},
			"createIndex":  func(t *rapid.T) { mc.ActCreateIndex(t) },
			"createIndex2": func(t *rapid.T) { mc.ActCreateIndex(t) },
			"dropIndex":    func(t *rapid.T) { mc.ActDropIndex(t) },
			// a value column that (as far as the model knows) carries no index is dropped: an index that was
			// dropped through DropColumn(indexName) is still attached to it inside the library, and its name
			// may be in use again on another column
			"dropColumn": func(t *rapid.T) {
				mc.ActDropColumn(t)
				mc.CheckIndexes(t, mc.C, "after DropColumn of a column without a live index", nil)
			},
		})
		mc.CheckFull(t, false)
		mc.CheckIndexes(t, mc.C, "at the end", mc.M.Live()[:min(len(mc.M.Rows), 20)])

		// derived collections: stream replica and restored snapshot; indexes created before or after
		commits := log.Since(0)
		mkIndexes := func(c *column.Collection) {
			for _, st := range mc.Indexes {
				if err := mc.createIndexOn(c, st.Spec); err != nil {
					mc.fail(t, "CreateIndex on a derived collection: %v", err)
				}
			}
		}
		replA := newCollection(sch, column.Options{})
		defer replA.Close()
		mkIndexes(replA)
		mc.replayAll(t, replA, commits, "replica (indexes before replay)")
		mc.CheckDerived(t, replA, "replica fed the change stream (indexes created before replay)", false)

		replB := newCollection(sch, column.Options{})
		defer replB.Close()
		mc.replayAll(t, replB, commits, "replica (indexes after replay)")
		mkIndexes(replB)
		mc.CheckDerived(t, replB, "replica fed the change stream (indexes created after replay)", true)

		restA := mc.snapshotRestore(t, mc.C, 0, mkIndexes)
		defer restA.Close()
		mc.CheckDerived(t, restA, "restored snapshot (indexes created before Restore)", false)

		restB := mc.snapshotRestore(t, mc.C, 0, nil)
		defer restB.Close()
		mkIndexes(restB)
		mc.CheckDerived(t, restB, "restored snapshot (indexes created after Restore)", true)

		nt := false
		for _, st := range mc.Indexes {
			if st.Changed {
				nt = true
				mc.flag("index-membership-changed")
			}
			if st.BackfillBlks >= 2 {
				nt = true
				mc.flag("backfill>=2blocks")
			}
		}
		RecordCase("C03", mc.Desc(), nt, mc.Labels()...)
	})
}

// TestC03Parallel: indexes are created WHILE writers commit (real parallelism);
// once everything is quiet the index must equal its predicate over the current
// values. The oracle is evaluated at quiescence only, so it is schedule-independent.
func TestC03Parallel(t *testing.T) {
	rapid.Check(t, func(t *rapid.T) {
		blocks := rapid.IntRange(2, 3).Draw(t, "blocks")
		writers := rapid.IntRange(1, 4).Draw(t, "writers")
		threshold := rapid.IntRange(10, 90).Draw(t, "threshold")
		c := column.NewCollection(column.Options{Capacity: 1024, Vacuum: 24 * 3600 * 1e9})
		defer c.Close()
		c.CreateColumn("v", column.ForInt())
		c.CreateColumn("s", column.ForString())
		n := (blocks-1)*16384 + 300
		c.Query(func(txn *column.Txn) error {
			for i := 0; i < n; i++ {
				txn.Insert(func(r column.Row) error { r.SetInt("v", i%100); r.SetString("s", "x"); return nil })
			}
			return nil
		})
		stop := make(chan struct{})
		done := make(chan struct{}, writers)
		for w := 0; w < writers; w++ {
			go func(w int) {
				defer func() { recover(); done <- struct{}{} }()
				x := uint32(w*7919 + 1)
				for i := 0; ; i++ {
					select {
					case <-stop:
						return
					default:
					}
					x = x*1664525 + 1013904223
					row := (x >> 8) % uint32(n)
					v := int(x>>3) % 100
					if i%3 == 0 {
						c.QueryAt(row, func(r column.Row) error { r.MergeInt("v", 1); return nil })
					} else {
						c.QueryAt(row, func(r column.Row) error { r.SetInt("v", v); r.SetString("s", "yy"); return nil })
					}
				}
			}(w)
		}
		// create (and re-create) indexes while the writers run
		for k := 0; k < 3; k++ {
			c.CreateIndex("big", "v", func(r column.Reader) bool { return r.Int() >= threshold })
			c.CreateIndex("long", "s", func(r column.Reader) bool { return len(r.String()) > 1 })
			if k < 2 {
				c.DropIndex("big")
				c.DropIndex("long")
			}
		}
		close(stop)
		for w := 0; w < writers; w++ {
			<-done
		}
		// quiescent: index == predicate over current values
		wantBig, wantLong := map[uint32]bool{}, map[uint32]bool{}
		c.Query(func(txn *column.Txn) error {
			v, s := txn.Int("v"), txn.String("s")
			return txn.Range(func(idx uint32) {
				if x, ok := v.Get(); ok && x >= threshold {
					wantBig[idx] = true
				}
				if x, ok := s.Get(); ok && len(x) > 1 {
					wantLong[idx] = true
				}
			})
		})
		gotBig, _ := readIndex(c, "big")
		gotLong, _ := readIndex(c, "long")
		if d := diffSets(gotBig, wantBig); d != "" {
			t.Fatalf("C03 violated (index created while %d writers were committing, %d blocks): index big (v >= %d) %s", writers, blocks, threshold, d)
		}
		if d := diffSets(gotLong, wantLong); d != "" {
			t.Fatalf("C03 violated (index created while %d writers were committing, %d blocks): index long (len(s) > 1) %s", writers, blocks, d)
		}
		RecordCase("C03", fmt.Sprintf("parallel index creation: blocks=%d writers=%d threshold=%d", blocks, writers, threshold), true, "index-created-under-writers")
	})
}
