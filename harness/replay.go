package harness

import (
	"encoding/json"
	"fmt"
	"os"
	"path/filepath"
	"sync/atomic"
	"testing"
)

var replaySeq int64

// writeReplay saves a JSON replay file for failures found outside rapid
// (exhaustive enumerations, fault positions, free-parallel runs). The driver
// picks it up from $VERIF_REPLAY_DIR and reports it in the VIOLATION line.
func writeReplay(prop, test string, data map[string]any) string {
	dir := os.Getenv("VERIF_REPLAY_DIR")
	if dir == "" {
		dir = os.TempDir()
	}
	data["property"] = prop
	data["test"] = test
	n := atomic.AddInt64(&replaySeq, 1)
	path := filepath.Join(dir, fmt.Sprintf("%s__%s__%d_%d.json", prop, test, os.Getpid(), n))
	b, err := json.MarshalIndent(data, "", " ")
	if err != nil {
		b = []byte(fmt.Sprintf(`{"property":%q,"test":%q,"error":"unserialisable replay: %v"}`, prop, test, err))
	}
	_ = os.WriteFile(path, b, 0o644)
	return path
}

// loadReplay loads the JSON replay named by $VERIF_REPLAY_FILE into v.
func loadReplay(t *testing.T, v any) bool {
	path := os.Getenv("VERIF_REPLAY_FILE")
	if path == "" {
		return false
	}
	b, err := os.ReadFile(path)
	if err != nil {
		t.Fatalf("cannot read replay file: %v", err)
	}
	if err := json.Unmarshal(b, v); err != nil {
		t.Fatalf("cannot decode replay file: %v", err)
	}
	return true
}
