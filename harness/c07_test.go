package harness

import (
	"fmt"
	"testing"

	"github.com/kelindar/column"
	"pgregory.net/rapid"
)

// ---------------------------------------------------------------------------
// C07 — restore of a snapshot reproduces the collection exactly
// ---------------------------------------------------------------------------

func TestC07(t *testing.T) {
	rapid.Check(t, func(t *rapid.T) {
		sch := genSchema(t, SchemaCfg{Key: 1, Late: true, Merges: true, EnsureLenMerge: true, MinCols: 1, MaxCols: 6})
		mc := NewMachine("C07", sch, column.Options{})
		defer func() { mc.Close() }()
		defer mc.Guard(t)
		cfg := TxnCfg{Prop: "C07", MaxSteps: 10, Peeks: true, Deletes: true, Inserts: true, Merges: true, OwnUpdates: true, Direct: true,
			NoStoreOnDel: KFActive("f11-store-and-delete-same-txn"), NoOpAfterLenMerge: KFActive("f15-difflen-merge-reorder")}
		restores, mutatedAfterRestore, richSnapshot := 0, false, false
		computed := 0
		var extra []func(c *column.Collection)
		_ = extra
		mutate := func() {
			if restores > 0 {
				mutatedAfterRestore = true
			}
		}
		t.Repeat(map[string]func(*rapid.T){
			"txn": func(t *rapid.T) {
				eff, committed := mc.ActTxn(t, cfg)
				if committed {
					mc.CheckIndexes(t, mc.C, "after a transaction", touchedRows(eff, 8))
					mutate()
				}
			},
			"txn2": func(t *rapid.T) {
				if _, committed := mc.ActTxn(t, cfg); committed {
					mutate()
				}
			},
			"prefill":     func(t *rapid.T) { mc.prefillAction(t); mutate() },
			"bulkDelete":  func(t *rapid.T) { mc.ActBulkDelete(t); mutate() },
			"dropColumn":  func(t *rapid.T) { mc.ActDropColumn(t) },
			"lateColumn":  func(t *rapid.T) { mc.ActLateColumn(t) },
			"createIndex": func(t *rapid.T) { mc.ActCreateIndex(t) },
			"dropIndex":   func(t *rapid.T) { mc.ActDropIndex(t) },
			"createSortIndexOrTrigger": func(t *rapid.T) {
				// computed columns that are NOT bitmap indexes also sit in the column registry; columns
				// created after them must still round-trip
				if computed >= 2 {
					t.Skip("enough")
				}
				var strs []int
				for i, cs := range sch.Cols {
					if cs.Kind == KString && mc.M.ColLive[i] {
						strs = append(strs, i)
					}
				}
				computed++
				if len(strs) > 0 && rapid.Bool().Draw(t, "sort-index") {
					ci := strs[rapid.IntRange(0, len(strs)-1).Draw(t, "sort-col")]
					mc.logf("createSortIndex sorted%d on %s", computed, sch.Cols[ci].Name)
					if err := mc.C.CreateSortIndex(fmt.Sprintf("sorted%d", computed), sch.Cols[ci].Name); err != nil {
						mc.fail(t, "CreateSortIndex: %v", err)
					}
					extra = append(extra, func(c *column.Collection) { c.CreateSortIndex(fmt.Sprintf("sorted%d", len(extra)), sch.Cols[ci].Name) })
				} else {
					mc.logf("createTrigger trig%d on expire", computed)
					if err := mc.C.CreateTrigger(fmt.Sprintf("trig%d", computed), "expire", func(column.Reader) {}); err != nil {
						mc.fail(t, "CreateTrigger: %v", err)
					}
				}
			},
			"snapshotRestore": func(t *rapid.T) {
				if restores >= 3 {
					t.Skip("enough cycles")
				}
				capacity := rapid.SampledFrom(capacities).Draw(t, "restore-capacity")
				indexesBefore := rapid.Bool().Draw(t, "indexes-before")
				mc.logf("snapshot -> restore into a fresh collection (capacity=%d, indexes created %s Restore), continue on the restored collection",
					capacity, map[bool]string{true: "before", false: "after"}[indexesBefore])
				mk := func(c *column.Collection) {
					for _, st := range mc.Indexes {
						if err := mc.createIndexOn(c, st.Spec); err != nil {
							mc.fail(t, "CreateIndex on the restoring collection: %v", err)
						}
					}
				}
				// one snapshot in three is written while 1..2 generated transactions commit (run by the hooks
				// at a drawn point before the recorder closes): they travel in the snapshot's log tail, and the
				// restored collection must equal the model INCLUDING them
				remove := func() {}
				if rapid.IntRange(0, 2).Draw(t, "transactions-during-the-snapshot") == 0 {
					point := rapid.SampledFrom([]string{"snapshot:recorder-open", "snapshot:pre-chunk:0", "snapshot:pre-chunk:1", "snapshot:pre-close"}).Draw(t, "snapshot-point")
					mc.logf("  with transactions at %s", point)
					remove = mc.installTail(t, map[string]int{point: rapid.IntRange(1, 2).Draw(t, "n")}, cfg, func(string, *TxnEffect, bool) { mc.flag("snapshot-with-log-tail") })
				}
				var dst *column.Collection
				if indexesBefore {
					dst = mc.snapshotRestore(t, mc.C, capacity, mk)
				} else {
					dst = mc.snapshotRestore(t, mc.C, capacity, nil)
					mk(dst)
				}
				remove()
				mc.CheckDerived(t, dst, "restored snapshot", restores%2 == 0)
				// the original is untouched by taking a snapshot
				mc.CheckDerived(t, mc.C, "original after Snapshot", restores%2 == 1)
				live := mc.M.Live()
				if len(mc.everDeleted) > 0 || (len(live) > 0 && live[len(live)-1] >= 16384) {
					richSnapshot = true
				}
				mc.C.Close()
				mc.C = dst
				restores++
				// point reads through every reader path on a few rows
				if len(live) > 0 {
					mc.CheckRows(t, []uint32{live[0], live[len(live)-1]}, ReadRowTyped, ReadRowAny)
				}
			},
		})
		mc.CheckFull(t, false)
		mc.CheckIndexes(t, mc.C, "at the end", nil)
		mc.CheckKeys(t)
		// one more round trip of the final state
		dst := mc.snapshotRestore(t, mc.C, 0, nil)
		for _, st := range mc.Indexes {
			if err := mc.createIndexOn(dst, st.Spec); err != nil {
				mc.fail(t, "CreateIndex on the restored collection: %v", err)
			}
		}
		mc.CheckDerived(t, dst, "final snapshot restored", true)
		dst.Close()
		if restores > 0 {
			mc.flag("restored")
		}
		if mutatedAfterRestore {
			mc.flag("mutated-after-restore")
		}
		RecordCase("C07", mc.Desc(), richSnapshot && mutatedAfterRestore, mc.Labels()...)
	})
}
