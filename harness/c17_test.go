package harness

import (
	"bytes"
	"fmt"
	"sync"
	"sync/atomic"
	"testing"
	"time"

	"github.com/kelindar/column"
	"github.com/kelindar/column/commit"
	"pgregory.net/rapid"
)

// ---------------------------------------------------------------------------
// C17 — rows expire only after their deadline, and then do expire
// ---------------------------------------------------------------------------

type c17Row struct {
	Kind  int // 0 no TTL, 1 TTL 0, 2 short, 3 long, 4 extended (2 s, then +1 h right away), 5 long then re-set to short, 6 short then taken away again with a TTL of 0, 7 an hour, then shortened to a few milliseconds with a NEGATIVE Extend
	TTLms int
}

type c17Case struct {
	IntervalMs int
	Rows       []c17Row
	Mode       int // 0 primary only, 1 also a restored snapshot, 2 also a stream replica, 3 a live stream follower without a cleanup of its own
	Busy       bool
	Big        bool // 16384 rows without TTL first; a slow transaction then inserts into the next block while the cleanup ticks
	ConcExtend int  // number of goroutines that extend one long-TTL row concurrently (0 = none)
}

func (c c17Case) String() string {
	n := [8]int{}
	for _, r := range c.Rows {
		n[r.Kind]++
	}
	return fmt.Sprintf("big=%v concExtend=%d vacuum=%dms rows{noTTL:%d ttl0:%d short:%d long:%d extended:%d reset-to-short:%d ttl-taken-away:%d shortened-by-negative-extend:%d} mode=%d busy=%v", c.Big, c.ConcExtend, c.IntervalMs, n[0], n[1], n[2], n[3], n[4], n[5], n[6], n[7], c.Mode, c.Busy)
}

type c17Tracked struct {
	id       uint64
	deadline time.Time // zero = never expires
}

func c17Present(c *column.Collection) map[uint64]bool {
	out := map[uint64]bool{}
	c.Query(func(txn *column.Txn) error {
		id := txn.Uint64("id")
		return txn.Range(func(idx uint32) {
			if v, ok := id.Get(); ok {
				out[v] = true
			}
		})
	})
	return out
}

// c17Judge checks safety now and returns the ids that are overdue but still present.
func c17Judge(c *column.Collection, rows []c17Tracked, what string) (overdue int, err error) {
	before := time.Now()
	present := c17Present(c)
	after := time.Now()
	for _, r := range rows {
		switch {
		case r.deadline.IsZero() || r.deadline.After(after.Add(time.Second)):
			if !present[r.id] {
				return 0, fmt.Errorf("%s: row id=%d is gone although its deadline is %s (checked at %s)", what, r.id,
					map[bool]string{true: "absent (no TTL)", false: r.deadline.Format("15:04:05.000")}[r.deadline.IsZero()], after.Format("15:04:05.000"))
			}
		case r.deadline.Before(before):
			if present[r.id] {
				overdue++
			}
		}
	}
	return overdue, nil
}

// countedLogger counts the commits it forwards.
type countedLogger struct {
	next commit.Logger
	n    *int64
}

func (l countedLogger) Append(c commit.Commit) error {
	atomic.AddInt64(l.n, 1)
	return l.next.Append(c)
}

func runC17Case(cs c17Case) (nontrivial bool, err error) {
	interval := time.Duration(cs.IntervalMs) * time.Millisecond
	mk := func(w commit.Logger) *column.Collection {
		c := column.NewCollection(column.Options{Vacuum: interval, Writer: w})
		c.CreateColumn("id", column.ForUint64())
		c.CreateColumn("n", column.ForInt())
		return c
	}
	var ch commit.Channel
	var logger commit.Logger
	var sent, applied int64 // mode 3: commits emitted / replayed by the follower
	if cs.Mode >= 2 {
		ch = make(commit.Channel, 1<<16)
		logger = ch
	}
	if cs.Mode == 3 {
		logger = countedLogger{ch, &sent}
	}
	c := mk(logger)
	defer c.Close()
	// mode 3: a follower that replays every emitted commit as it arrives and never cleans up by
	// itself (vacuum interval 1 h): whatever the primary's cleanup removes must reach it through
	// the stream, and offsets re-used afterwards must not inherit anything there
	var follower *column.Collection
	var followMu sync.Mutex
	var followErr error
	if cs.Mode == 3 {
		follower = column.NewCollection(column.Options{Vacuum: time.Hour})
		follower.CreateColumn("id", column.ForUint64())
		follower.CreateColumn("n", column.ForInt())
		defer follower.Close()
		fdone := make(chan struct{})
		defer func() { close(ch); <-fdone }()
		go func() {
			defer close(fdone)
			for cm := range ch {
				followMu.Lock()
				if err := follower.Replay(cm); err != nil && followErr == nil {
					followErr = err
				}
				atomic.AddInt64(&applied, 1)
				followMu.Unlock()
			}
		}()
	}
	var rows []c17Tracked
	offsets := map[uint64]uint32{}
	if cs.Big {
		// a full first block of rows that never expire
		c.Query(func(txn *column.Txn) error {
			for i := 0; i < 16384; i++ {
				id := uint64(1<<32 + i)
				txn.Insert(func(row column.Row) error { row.SetUint64("id", id); return nil })
			}
			return nil
		})
		for i := 0; i < 16384; i += 1024 {
			rows = append(rows, c17Tracked{uint64(1<<32 + i), time.Time{}})
		}
		// one slow transaction reserves offsets in the NEXT block while the cleanup keeps ticking
		seen := map[uint32]bool{}
		dup := ""
		c.Query(func(txn *column.Txn) error {
			for i := 0; i < 30; i++ {
				id := uint64(2<<32 + i)
				off, _ := txn.Insert(func(row column.Row) error { row.SetUint64("id", id); return nil })
				if seen[off] && dup == "" {
					dup = fmt.Sprintf("offset %d was handed out twice inside one transaction while the cleanup was running", off)
				}
				seen[off] = true
				time.Sleep(time.Duration(cs.IntervalMs) * time.Millisecond / 2)
			}
			return nil
		})
		if dup != "" {
			return false, fmt.Errorf("%s", dup)
		}
		for i := 0; i < 30; i++ {
			rows = append(rows, c17Tracked{uint64(2<<32 + i), time.Time{}})
		}
	}
	for i, r := range cs.Rows {
		id := uint64(i + 1)
		var until time.Time
		off, ierr := c.Insert(func(row column.Row) error {
			row.SetUint64("id", id)
			switch r.Kind {
			case 1:
				until = row.SetTTL(0)
			case 2:
				until = row.SetTTL(time.Duration(r.TTLms) * time.Millisecond)
			case 6:
				// 400 ms: long enough that the next call (which takes it away) cannot come too late even
				// on a busy machine, short enough that a lost "take away" shows before the case ends
				until = row.SetTTL(400 * time.Millisecond)
			case 3, 5, 7:
				until = row.SetTTL(time.Hour + time.Duration(r.TTLms)*time.Millisecond)
			case 4:
				until = row.SetTTL(2 * time.Second)
			}
			return nil
		})
		if ierr != nil {
			return false, ierr
		}
		offsets[id] = off
		if r.Kind == 4 {
			// extend well before the deadline (2 s away)
			c.Query(func(txn *column.Txn) error {
				return txn.QueryAt(off, func(column.Row) error { txn.TTL().Extend(time.Hour); return nil })
			})
			until = until.Add(time.Hour)
		}
		if r.Kind == 5 {
			// setting the TTL again moves the deadline: from an hour to a few milliseconds
			c.QueryAt(off, func(row column.Row) error { until = row.SetTTL(time.Duration(r.TTLms) * time.Millisecond); return nil })
		}
		if r.Kind == 3 || r.Kind == 4 {
			// Row.TTL reports the remaining time to the deadline
			var left time.Duration
			var ok bool
			c.QueryAt(off, func(row column.Row) error { left, ok = row.TTL(); return nil })
			if want := time.Until(until); !ok || left > want+2*time.Second || left < want-2*time.Second {
				return false, fmt.Errorf("row id=%d: Row.TTL() = %s,%v; the deadline is %s away", id, left, ok, want)
			}
		}
		if r.Kind == 7 {
			// extending by a negative duration moves the deadline closer
			c.Query(func(txn *column.Txn) error {
				return txn.QueryAt(off, func(column.Row) error { txn.TTL().Extend(-time.Hour); return nil })
			})
			until = until.Add(-time.Hour)
		}
		if r.Kind == 6 {
			// a time-to-live of zero takes the deadline away again (Row.SetTTL or the transaction's TTL accessor)
			if id%2 == 0 {
				c.QueryAt(off, func(row column.Row) error { row.SetTTL(0); return nil })
			} else {
				c.Query(func(txn *column.Txn) error {
					return txn.QueryAt(off, func(column.Row) error { txn.TTL().Set(0); return nil })
				})
			}
		}
		if r.Kind == 0 || r.Kind == 1 || r.Kind == 6 {
			until = time.Time{}
		}
		rows = append(rows, c17Tracked{id, until})
	}
	if cs.ConcExtend > 0 {
		// extending the TTL moves the deadline accordingly - also when several transactions extend one row at once
		id := uint64(3 << 32)
		var until time.Time
		off, _ := c.Insert(func(row column.Row) error { row.SetUint64("id", id); until = row.SetTTL(time.Hour); return nil })
		const each = 25
		var ewg sync.WaitGroup
		for g := 0; g < cs.ConcExtend; g++ {
			ewg.Add(1)
			go func() {
				defer ewg.Done()
				for k := 0; k < each; k++ {
					c.Query(func(txn *column.Txn) error {
						return txn.QueryAt(off, func(column.Row) error { txn.TTL().Extend(time.Minute); return nil })
					})
				}
			}()
		}
		ewg.Wait()
		var stored int64
		c.QueryAt(off, func(row column.Row) error { stored, _ = row.Int64("expire"); return nil })
		want := until.Add(time.Duration(cs.ConcExtend*each) * time.Minute)
		if stored != want.UnixNano() {
			return false, fmt.Errorf("row id=%d: %d goroutines extended its TTL %d times by 1m each; the stored deadline is %s, initial deadline + all extensions is %s (%d extensions lost)",
				id, cs.ConcExtend, each, time.Unix(0, stored).Format("15:04:05.000"), want.Format("15:04:05.000"), (want.UnixNano()-stored)/int64(time.Minute))
		}
		rows = append(rows, c17Tracked{id, want})
		offsets[id] = off
	}
	// derived collections whose own vacuum must behave identically
	derived := map[string]*column.Collection{}
	switch cs.Mode {
	case 1:
		var buf bytes.Buffer
		if serr := c.Snapshot(&buf); serr != nil {
			return false, fmt.Errorf("Snapshot: %v", serr)
		}
		d := mk(nil)
		defer d.Close()
		if rerr := d.Restore(&buf); rerr != nil {
			return false, fmt.Errorf("Restore: %v", rerr)
		}
		derived["restored snapshot"] = d
	case 2:
		d := mk(nil)
		defer d.Close()
		for len(ch) > 0 {
			if rerr := d.Replay(<-ch); rerr != nil {
				return false, fmt.Errorf("Replay: %v", rerr)
			}
		}
		derived["stream replica"] = d
	}
	// the deadline survives: compare the stored deadline bit for bit on rows that cannot have expired yet
	for name, d := range derived {
		for _, r := range rows {
			if !(r.deadline.IsZero() || r.deadline.After(time.Now().Add(time.Second))) {
				continue
			}
			var a, b int64
			var okA, okB bool
			c.QueryAt(offsets[r.id], func(row column.Row) error { a, okA = row.Int64("expire"); return nil })
			d.QueryAt(offsets[r.id], func(row column.Row) error { b, okB = row.Int64("expire"); return nil })
			if a != b || okA != okB {
				return false, fmt.Errorf("%s: row id=%d stores deadline %d,%v; the primary stores %d,%v", name, r.id, b, okB, a, okA)
			}
		}
	}
	// concurrent unrelated work on the same rows while the vacuum runs
	stop := make(chan struct{})
	var wg sync.WaitGroup
	if cs.Busy {
		wg.Add(1)
		go func() {
			defer wg.Done()
			extra := uint64(1 << 40)
			for i := 0; ; i++ {
				select {
				case <-stop:
					return
				default:
				}
				c.Query(func(txn *column.Txn) error {
					n := txn.Int("n")
					return txn.Range(func(idx uint32) { n.Merge(1) })
				})
				extra++
				off, _ := c.Insert(func(row column.Row) error { row.SetUint64("id", extra); row.SetTTL(time.Hour); return nil })
				if i%2 == 0 {
					c.DeleteAt(off)
				}
				time.Sleep(time.Millisecond)
			}
		}()
	}
	stopped := false
	stopBusy := func() {
		if !stopped {
			stopped = true
			close(stop)
			wg.Wait()
		}
	}
	defer stopBusy()
	all := map[string]*column.Collection{"primary": c}
	for k, v := range derived {
		all[k] = v
	}
	// sample until every overdue row is gone; liveness bound: max(50 intervals, 10 s) after the last deadline
	var lastDeadline time.Time
	expiring := 0
	for _, r := range rows {
		if !r.deadline.IsZero() && r.deadline.Before(time.Now().Add(30*time.Second)) {
			expiring++
			if r.deadline.After(lastDeadline) {
				lastDeadline = r.deadline
			}
		}
	}
	bound := 50 * interval
	if bound < 10*time.Second {
		bound = 10 * time.Second
	}
	minWait := 12 * interval
	for _, r := range cs.Rows {
		if r.Kind == 6 && minWait < 900*time.Millisecond {
			minWait = 900 * time.Millisecond // well past the deadline that was taken away
		}
	}
	start := time.Now()
	for {
		// taken BEFORE the rows are judged: once now is past every deadline, each overdue row that
		// is still present counts as pending (a deadline passing between the judgement and a later
		// clock reading would end the loop with that row still to be removed)
		now := time.Now()
		pending := 0
		for name, col := range all {
			n, jerr := c17Judge(col, rows, name)
			if jerr != nil {
				return false, jerr
			}
			pending += n
		}
		pastAll := lastDeadline.IsZero() || now.After(lastDeadline)
		if pending == 0 && pastAll && now.Sub(start) >= minWait {
			break
		}
		if !lastDeadline.IsZero() && now.After(lastDeadline.Add(bound)) && pending > 0 {
			return false, fmt.Errorf("%d row(s) whose deadline passed more than %s ago are still present (vacuum interval %s)", pending, bound, interval)
		}
		time.Sleep(interval)
	}
	survivors := 0
	for _, r := range rows {
		if r.deadline.IsZero() || r.deadline.After(time.Now().Add(time.Second)) {
			survivors++
		}
	}
	if follower != nil {
		stopBusy()
		compare := func(when string) error {
			// The primary is quiescent apart from a cleanup commit that may still be in progress: a
			// deleted row leaves the fill-list (and thus every reader's selection) before its commit
			// reaches the logger. A full Range takes every block's read latch once and therefore
			// waits for such a commit to finish (the logger is called under the latch). No deadline
			// within 30 s is left afterwards, so nothing else will be emitted: wait for the drain.
			c17Present(c)
			for i := 0; atomic.LoadInt64(&applied) != atomic.LoadInt64(&sent) && i < 10000; i++ {
				time.Sleep(time.Millisecond)
			}
			followMu.Lock()
			defer followMu.Unlock()
			if followErr != nil {
				return fmt.Errorf("stream follower: Replay: %v", followErr)
			}
			dump := func(col *column.Collection) map[uint64]string {
				out := map[uint64]string{}
				col.Query(func(txn *column.Txn) error {
					id, ex := txn.Uint64("id"), txn.Int64("expire")
					return txn.Range(func(idx uint32) {
						v, _ := id.Get()
						e, ok := ex.Get()
						out[v] = fmt.Sprintf("offset %d deadline %d,%v", idx, e, ok)
					})
				})
				return out
			}
			p, f := dump(c), dump(follower)
			for id, v := range f {
				if pv, ok := p[id]; !ok {
					return fmt.Errorf("%s: the stream follower (replays every emitted commit, no cleanup of its own) still holds row id=%d (%s) which is gone from the primary: its removal never reached the stream", when, id, v)
				} else if pv != v {
					return fmt.Errorf("%s: row id=%d: primary %s, stream follower %s", when, id, pv, v)
				}
			}
			for id, v := range p {
				if _, ok := f[id]; !ok {
					return fmt.Errorf("%s: row id=%d (%s) of the primary is missing on the stream follower", when, id, v)
				}
			}
			if c.Count() != follower.Count() {
				return fmt.Errorf("%s: Count: primary %d, stream follower %d", when, c.Count(), follower.Count())
			}
			return nil
		}
		if err := compare("after the primary's cleanup removed the expired rows"); err != nil {
			return false, err
		}
		// rows without a TTL re-use the offsets of the expired ones
		for i := 0; i < expiring+2; i++ {
			id := uint64(5<<32 + i)
			c.Insert(func(row column.Row) error { row.SetUint64("id", id); return nil })
		}
		if err := compare("after rows without a TTL re-used the offsets of expired rows"); err != nil {
			return false, err
		}
	}
	return expiring > 0 && survivors > 0, nil
}

func TestC17(t *testing.T) {
	par := envInt("VERIF_C17_PAR", 16)
	rapid.Check(t, func(t *rapid.T) {
		cases := make([]c17Case, par)
		for i := range cases {
			cs := c17Case{IntervalMs: rapid.SampledFrom([]int{1, 5, 20}).Draw(t, "interval"), Mode: rapid.IntRange(0, 3).Draw(t, "mode"), Busy: rapid.Bool().Draw(t, "busy")}
			cs.Big = rapid.IntRange(0, 7).Draw(t, "big") == 0
			if rapid.IntRange(0, 2).Draw(t, "conc-extend") == 0 {
				cs.ConcExtend = rapid.IntRange(2, 6).Draw(t, "extenders")
			}
			n := rapid.IntRange(2, 12).Draw(t, "nrows")
			for j := 0; j < n; j++ {
				cs.Rows = append(cs.Rows, c17Row{Kind: rapid.IntRange(0, 7).Draw(t, "kind"), TTLms: rapid.IntRange(10, 60).Draw(t, "ttl")})
			}
			cases[i] = cs
		}
		type result struct {
			nt  bool
			err error
		}
		results := make([]result, len(cases))
		var wg sync.WaitGroup
		for i := range cases {
			wg.Add(1)
			go func(i int) {
				defer wg.Done()
				defer func() {
					if r := recover(); r != nil {
						results[i].err = fmt.Errorf("panic: %v", r)
					}
				}()
				results[i].nt, results[i].err = runC17Case(cases[i])
			}(i)
		}
		wg.Wait()
		for i, r := range results {
			if r.err != nil {
				t.Fatalf("C17 violated: %v\ncase: %s", r.err, cases[i])
			}
			RecordCase("C17", cases[i].String()+fmt.Sprintf(" ttls=%v", cases[i].Rows), r.nt, fmt.Sprintf("mode-%d", cases[i].Mode), fmt.Sprintf("interval-%dms", cases[i].IntervalMs))
		}
	})
}

// TestC17PooledClock: the deadline of a row is "the moment SetTTL was called + ttl", whatever the
// (pooled) transaction object that serves the call did before. K nested read-only queries put K
// transaction objects into use at once; after an idle period K nested inserts (again K
// transactions in flight) give their rows a TTL a little longer than the idle period. Every row
// must still be there while its deadline is more than a second away.
func TestC17PooledClock(t *testing.T) {
	par := envInt("VERIF_C17_PAR", 16)
	rapid.Check(t, func(t *rapid.T) {
		type pc struct {
			K      int
			IdleMs int
		}
		cases := make([]pc, par)
		for i := range cases {
			cases[i] = pc{K: rapid.IntRange(4, 24).Draw(t, "nested"), IdleMs: rapid.IntRange(1300, 1700).Draw(t, "idle-ms")}
		}
		errs := make([]error, par)
		var wg sync.WaitGroup
		for i := range cases {
			wg.Add(1)
			go func(i int) {
				defer wg.Done()
				cs := cases[i]
				c := column.NewCollection(column.Options{Vacuum: 5 * time.Millisecond})
				defer c.Close()
				c.CreateColumn("id", column.ForUint64())
				c.Insert(func(r column.Row) error { r.SetUint64("id", 1<<40); return nil })
				var nest func(k int, body func(txn *column.Txn, k int))
				nest = func(k int, body func(txn *column.Txn, k int)) {
					if k == 0 {
						return
					}
					c.Query(func(txn *column.Txn) error {
						body(txn, k)
						nest(k-1, body)
						return nil
					})
				}
				nest(cs.K, func(txn *column.Txn, k int) { txn.Range(func(uint32) {}) })
				time.Sleep(time.Duration(cs.IdleMs) * time.Millisecond)
				ttl := time.Duration(cs.IdleMs+500) * time.Millisecond
				deadlines := map[uint64]time.Time{}
				var mu sync.Mutex
				nest(cs.K, func(txn *column.Txn, k int) {
					before := time.Now()
					txn.Insert(func(r column.Row) error { r.SetUint64("id", uint64(k)); r.SetTTL(ttl); return nil })
					mu.Lock()
					deadlines[uint64(k)] = before.Add(ttl) // the earliest moment the row may go
					mu.Unlock()
				})
				for step := 0; step < 8; step++ {
					time.Sleep(100 * time.Millisecond)
					present := c17Present(c)
					now := time.Now()
					for id, d := range deadlines {
						if d.After(now.Add(time.Second)) && !present[id] {
							errs[i] = fmt.Errorf("row id=%d was given a time-to-live of %s at %s (so its deadline is not before %s) and is gone at %s; %d transactions had been in use %dms earlier", id, ttl, d.Add(-ttl).Format("15:04:05.000"), d.Format("15:04:05.000"), now.Format("15:04:05.000"), cs.K, cs.IdleMs)
							return
						}
					}
				}
			}(i)
		}
		wg.Wait()
		for i, err := range errs {
			if err != nil {
				t.Fatalf("C17 violated: %v", err)
			}
			RecordCase("C17", fmt.Sprintf("pooled clock: %d nested transactions, idle %dms", cases[i].K, cases[i].IdleMs), true, "ttl-set-by-a-reused-transaction-object")
		}
	})
}

// TestC17SlowVacuum: with a cleanup interval of 1.5 s, rows with a time-to-live of 2.9 s are looked
// at once before their deadline (1.4 s early): they must survive that pass. Sampled every 100 ms;
// a row must be there while its deadline is more than a second away.
func TestC17SlowVacuum(t *testing.T) {
	c := column.NewCollection(column.Options{Vacuum: 1500 * time.Millisecond})
	defer c.Close()
	c.CreateColumn("id", column.ForUint64())
	deadlines := map[uint64]time.Time{}
	for i := 0; i < 8; i++ {
		before := time.Now()
		ttl := 2900*time.Millisecond + time.Duration(i)*20*time.Millisecond
		c.Insert(func(r column.Row) error { r.SetUint64("id", uint64(i)); r.SetTTL(ttl); return nil })
		deadlines[uint64(i)] = before.Add(ttl)
	}
	// beside it, a keyed collection with the same slow cleanup: a row whose short TTL is over but which
	// the cleanup has not yet visited still owns its key. Whatever InsertKey answers then, a row that an
	// insert WITHOUT a TTL reported as created never expires.
	k := column.NewCollection(column.Options{Vacuum: 1500 * time.Millisecond})
	defer k.Close()
	k.CreateColumn("key", column.ForKey())
	k.CreateColumn("gen", column.ForInt())
	k.InsertKey("a", func(r column.Row) error { r.SetInt("gen", 1); r.SetTTL(50 * time.Millisecond); return nil })
	immortal := 0 // generation of the row that was created without a TTL (0 = none yet)
	keyedHistory := ""
	keyedStep := func(step int) {
		gen, found := 0, false
		k.QueryKey("a", func(r column.Row) error { gen, found = r.Int("gen"); return nil })
		if immortal != 0 && (!found || gen != immortal) {
			t.Fatalf("C17 violated: the row that InsertKey(\"a\") created WITHOUT a TTL (generation %d) is gone %d ms later (found=%v generation %d); history: %s", immortal, step*100, found, gen, keyedHistory)
		}
		if immortal == 0 && step >= 2 {
			err := k.InsertKey("a", func(r column.Row) error { r.SetInt("gen", step+10); return nil })
			keyedHistory += fmt.Sprintf("%dms: InsertKey(a, no TTL) while the expired row found=%v -> %v; ", step*100, found, err)
			if err == nil {
				immortal = step + 10
			}
		}
	}
	for step := 0; step < 36; step++ {
		time.Sleep(100 * time.Millisecond)
		keyedStep(step)
		present := c17Present(c)
		now := time.Now()
		for id, d := range deadlines {
			if d.After(now.Add(time.Second)) && !present[id] {
				t.Fatalf("C17 violated: row id=%d (deadline %s) is gone at %s, %s before its deadline (cleanup interval 1.5s)", id, d.Format("15:04:05.000"), now.Format("15:04:05.000"), d.Sub(now).Round(time.Millisecond))
			}
		}
	}
	labels := []string{"cleanup-interval-longer-than-a-second"}
	if immortal != 0 {
		labels = append(labels, "key-of-an-overdue-row-inserted-again") // (liveness of the cleanup is judged by TestC17, with its bounds)
	}
	RecordCase("C17", "slow cleanup: interval 1.5s, rows with a TTL of 2.9s survive the pass before their deadline; keyed: "+keyedHistory, true, labels...)
}

// TestC17ManyRows: a cleanup interval (1 ms) far shorter than one pass over the collection takes
// (300 000 rows that carry a far deadline, 19 blocks): the rows at the highest offsets must still be
// reached. The last 3 rows get a 50 ms TTL; they have to be gone within the liveness bound of
// TestC17 (here 20 s; a pass takes a few milliseconds), the others have to stay.
func TestC17ManyRows(t *testing.T) {
	c := column.NewCollection(column.Options{Vacuum: time.Millisecond})
	defer c.Close()
	c.CreateColumn("id", column.ForUint64())
	const n = 300000
	c.Query(func(txn *column.Txn) error {
		for i := 0; i < n; i++ {
			txn.Insert(func(r column.Row) error { r.SetUint64("id", uint64(i)); r.SetTTL(time.Hour); return nil })
		}
		return nil
	})
	var short []uint32
	for i := 0; i < 3; i++ {
		off, _ := c.Insert(func(r column.Row) error { r.SetUint64("id", uint64(n+i)); r.SetTTL(50 * time.Millisecond); return nil })
		short = append(short, off)
	}
	deadline := time.Now().Add(50 * time.Millisecond)
	for _, off := range short {
		if off < n {
			t.Fatalf("harness: the short-lived row got offset %d, below the %d long-lived ones", off, n)
		}
	}
	gone := time.Duration(0)
	for {
		// presence by id through a full Range (QueryAt answers nil for an offset that holds no row, so it
		// is no presence test - see DESIGN.md §14, false alarm 15)
		present := c17Present(c)
		left := 0
		for i := range short {
			if present[uint64(n+i)] {
				left++
			}
		}
		if left == 0 {
			gone = time.Since(deadline)
			break
		}
		if time.Since(deadline) > 20*time.Second {
			t.Fatalf("C17 violated: %d of the 3 rows at offsets %v (behind %d rows with a far deadline) are still present %s after their deadline; cleanup interval 1ms", left, short, n, time.Since(deadline).Round(time.Millisecond))
		}
		time.Sleep(5 * time.Millisecond)
	}
	if got := c.Count(); got != n {
		t.Fatalf("C17 violated: Count()=%d after the 3 short-lived rows expired, %d rows carry a deadline one hour away", got, n)
	}
	RecordCase("C17", fmt.Sprintf("cleanup interval 1ms over %d rows in 19 blocks: the 3 rows at the highest offsets were gone %s after their deadline", n, gone.Round(time.Millisecond)), true, "pass-longer-than-interval")
}
