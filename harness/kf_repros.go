package harness

import (
	"fmt"

	"github.com/kelindar/column"
)

// Deterministic reproductions of recorded/repaired defects (DESIGN.md §7). Each
// returns failed=true with a description while the defect is present.

func kfCollection(cols ...ColSpec) (*column.Collection, *Schema) {
	s := &Schema{Capacity: 1024, Key: -1, Cols: append([]ColSpec{{Name: "expire", Kind: KInt64}}, cols...)}
	for i, c := range s.Cols {
		if c.Kind == KKey {
			s.Key = i
		}
	}
	return newCollection(s, column.Options{}), s
}

func init() {
	registerKF("f11-store-and-delete-same-txn", "C11,C01,C02,C07",
		"a transaction that stores to a row and deletes the same row leaves the column's presence bit on the dead offset; the next row inserted at that offset exposes the stale value",
		func() (bool, string) {
			c, _ := kfCollection(ColSpec{Name: "v", Kind: KInt})
			defer c.Close()
			off, _ := c.Insert(func(r column.Row) error { r.SetInt("v", 7); return nil })
			c.Query(func(txn *column.Txn) error {
				txn.QueryAt(off, func(r column.Row) error { r.SetInt("v", 9); return nil })
				txn.DeleteAt(off)
				return nil
			})
			off2, _ := c.Insert(func(r column.Row) error { return nil })
			var v int
			var ok bool
			c.QueryAt(off2, func(r column.Row) error { v, ok = r.Int("v"); return nil })
			if ok {
				return true, fmt.Sprintf("fresh row at reused offset %d (was %d) reads v=%d, want absent", off2, off, v)
			}
			return false, ""
		})

	registerKF("f17-double-create-same-key", "C12",
		"two creating key operations (InsertKey/UpsertKey/SetKey) for the same absent key inside one transaction (or concurrently) both pass the existence check: two live rows hold the key",
		func() (bool, string) {
			c, _ := kfCollection(ColSpec{Name: "pk", Kind: KKey})
			defer c.Close()
			c.Query(func(txn *column.Txn) error {
				txn.InsertKey("a", func(r column.Row) error { return nil })
				txn.InsertKey("a", func(r column.Row) error { return nil })
				return nil
			})
			n := 0
			c.Query(func(txn *column.Txn) error {
				return txn.Range(func(idx uint32) {
					if k, ok := txn.Key().Get(); ok && k == "a" {
						n++
					}
				})
			})
			if n != 1 {
				return true, fmt.Sprintf("%d live rows hold key \"a\" after two InsertKey(\"a\") in one transaction", n)
			}
			return false, ""
		})
}

func init() {
	registerKF("f08-late-column-sparse", "C01",
		"CreateColumn on a populated sparse collection sized the column by Count(); the next commit to a high offset panicked",
		func() (bool, string) {
			c, _ := kfCollection(ColSpec{Name: "v", Kind: KInt})
			defer c.Close()
			var last uint32
			c.Query(func(txn *column.Txn) error {
				for i := 0; i < 16390; i++ {
					last, _ = txn.Insert(func(r column.Row) error { r.SetInt("v", i); return nil })
				}
				return nil
			})
			c.Query(func(txn *column.Txn) error {
				for i := uint32(0); i < last; i++ {
					txn.DeleteAt(i)
				}
				return nil
			})
			if err := c.CreateColumn("late", column.ForInt()); err != nil {
				return true, err.Error()
			}
			c.QueryAt(last, func(r column.Row) error { r.SetInt("late", 5); return nil }) // panicked before the repair
			var v int
			var ok bool
			c.QueryAt(last, func(r column.Row) error { v, ok = r.Int("late"); return nil })
			if !ok || v != 5 {
				return true, fmt.Sprintf("late column at row %d reads %d,%v want 5,true", last, v, ok)
			}
			return false, ""
		})

	registerKF("f12-merge-into-stale", "C01,C11,C09",
		"a merge into a row holding no value started from the value left behind by a previously deleted row at that offset",
		func() (bool, string) {
			c, _ := kfCollection(ColSpec{Name: "v", Kind: KInt}, ColSpec{Name: "s", Kind: KString, Merge: MConcat})
			defer c.Close()
			off, _ := c.Insert(func(r column.Row) error { r.SetInt("v", 7); r.SetString("s", "old"); return nil })
			c.DeleteAt(off)
			off2, _ := c.Insert(func(r column.Row) error { r.MergeInt("v", 1); r.MergeString("s", "new"); return nil })
			var v int
			var s string
			c.QueryAt(off2, func(r column.Row) error { v, _ = r.Int("v"); s, _ = r.String("s"); return nil })
			if v != 1 || s != "new" {
				return true, fmt.Sprintf("fresh row at reused offset %d (was %d): merge +1 reads %d (want 1), merge \"new\" reads %q (want \"new\")", off2, off, v, s)
			}
			return false, ""
		})

	registerKF("f16-enum-hash-collision", "C01",
		"enum strings whose xxh3 hashes agree in the low 32 bits (\"e14884\", \"e28738\") were interned as one entry",
		func() (bool, string) {
			c, _ := kfCollection(ColSpec{Name: "e", Kind: KEnum})
			defer c.Close()
			a, _ := c.Insert(func(r column.Row) error { r.SetEnum("e", "e14884"); return nil })
			b, _ := c.Insert(func(r column.Row) error { r.SetEnum("e", "e28738"); return nil })
			var va, vb string
			c.QueryAt(a, func(r column.Row) error { va, _ = r.Enum("e"); return nil })
			c.QueryAt(b, func(r column.Row) error { vb, _ = r.Enum("e"); return nil })
			if va != "e14884" || vb != "e28738" {
				return true, fmt.Sprintf("rows read %q and %q, want \"e14884\" and \"e28738\"", va, vb)
			}
			return false, ""
		})

	registerKF("f21-string-merge-alias", "C01",
		"a string merged with the default merge function was stored as a view of the pooled transaction buffer and changed when later transactions reused the buffer",
		func() (bool, string) {
			c, _ := kfCollection(ColSpec{Name: "s", Kind: KString})
			defer c.Close()
			a, _ := c.Insert(func(r column.Row) error { return nil })
			b, _ := c.Insert(func(r column.Row) error { return nil })
			c.QueryAt(a, func(r column.Row) error { r.MergeString("s", "hello"); return nil })
			for i := 0; i < 50; i++ {
				c.QueryAt(b, func(r column.Row) error { r.SetString("s", "XXXXXXXXXXXXXXXX"); return nil })
			}
			var v string
			c.QueryAt(a, func(r column.Row) error { v, _ = r.String("s"); return nil })
			if v != "hello" {
				return true, fmt.Sprintf("MergeString(\"hello\") reads back %q after unrelated transactions", v)
			}
			return false, ""
		})
}
