package harness

import (
	"bytes"
	"fmt"

	"github.com/kelindar/column"
	"github.com/kelindar/column/commit"
)

// Deterministic reproductions of recorded/repaired defects (DESIGN.md §7). Each
// returns failed=true with a description while the defect is present.

func kfCollection(cols ...ColSpec) (*column.Collection, *Schema) {
	s := &Schema{Capacity: 1024, Key: -1, Cols: append([]ColSpec{{Name: "expire", Kind: KInt64}}, cols...)}
	for i, c := range s.Cols {
		if c.Kind == KKey {
			s.Key = i
		}
	}
	return newCollection(s, column.Options{}), s
}

func init() {
	registerKF("f11-store-and-delete-same-txn", "C11,C01,C02,C07",
		"a transaction that stores to a row and deletes the same row leaves the column's presence bit on the dead offset; the next row inserted at that offset exposes the stale value",
		func() (bool, string) {
			c, _ := kfCollection(ColSpec{Name: "v", Kind: KInt})
			defer c.Close()
			off, _ := c.Insert(func(r column.Row) error { r.SetInt("v", 7); return nil })
			c.Query(func(txn *column.Txn) error {
				txn.QueryAt(off, func(r column.Row) error { r.SetInt("v", 9); return nil })
				txn.DeleteAt(off)
				return nil
			})
			off2, _ := c.Insert(func(r column.Row) error { return nil })
			var v int
			var ok bool
			c.QueryAt(off2, func(r column.Row) error { v, ok = r.Int("v"); return nil })
			if ok {
				return true, fmt.Sprintf("fresh row at reused offset %d (was %d) reads v=%d, want absent", off2, off, v)
			}
			return false, ""
		})

	registerKF("f17-double-create-same-key", "C12,C02",
		"two creating key operations (InsertKey/UpsertKey/SetKey) for the same absent key inside one transaction (or concurrently) both pass the existence check: two live rows hold the key",
		func() (bool, string) {
			c, _ := kfCollection(ColSpec{Name: "pk", Kind: KKey})
			defer c.Close()
			c.Query(func(txn *column.Txn) error {
				txn.InsertKey("a", func(r column.Row) error { return nil })
				txn.InsertKey("a", func(r column.Row) error { return nil })
				return nil
			})
			n := 0
			c.Query(func(txn *column.Txn) error {
				return txn.Range(func(idx uint32) {
					if k, ok := txn.Key().Get(); ok && k == "a" {
						n++
					}
				})
			})
			if n != 1 {
				return true, fmt.Sprintf("%d live rows hold key \"a\" after two InsertKey(\"a\") in one transaction", n)
			}
			return false, ""
		})
}

func init() {
	registerKF("f08-late-column-sparse", "C01",
		"CreateColumn on a populated sparse collection sized the column by Count(); the next commit to a high offset panicked",
		func() (bool, string) {
			c, _ := kfCollection(ColSpec{Name: "v", Kind: KInt})
			defer c.Close()
			var last uint32
			c.Query(func(txn *column.Txn) error {
				for i := 0; i < 16390; i++ {
					last, _ = txn.Insert(func(r column.Row) error { r.SetInt("v", i); return nil })
				}
				return nil
			})
			c.Query(func(txn *column.Txn) error {
				for i := uint32(0); i < last; i++ {
					txn.DeleteAt(i)
				}
				return nil
			})
			if err := c.CreateColumn("late", column.ForInt()); err != nil {
				return true, err.Error()
			}
			c.QueryAt(last, func(r column.Row) error { r.SetInt("late", 5); return nil }) // panicked before the repair
			var v int
			var ok bool
			c.QueryAt(last, func(r column.Row) error { v, ok = r.Int("late"); return nil })
			if !ok || v != 5 {
				return true, fmt.Sprintf("late column at row %d reads %d,%v want 5,true", last, v, ok)
			}
			return false, ""
		})

	registerKF("f12-merge-into-stale", "C01,C11,C09",
		"a merge into a row holding no value started from the value left behind by a previously deleted row at that offset",
		func() (bool, string) {
			c, _ := kfCollection(ColSpec{Name: "v", Kind: KInt}, ColSpec{Name: "s", Kind: KString, Merge: MConcat})
			defer c.Close()
			off, _ := c.Insert(func(r column.Row) error { r.SetInt("v", 7); r.SetString("s", "old"); return nil })
			c.DeleteAt(off)
			off2, _ := c.Insert(func(r column.Row) error { r.MergeInt("v", 1); r.MergeString("s", "new"); return nil })
			var v int
			var s string
			c.QueryAt(off2, func(r column.Row) error { v, _ = r.Int("v"); s, _ = r.String("s"); return nil })
			if v != 1 || s != "new" {
				return true, fmt.Sprintf("fresh row at reused offset %d (was %d): merge +1 reads %d (want 1), merge \"new\" reads %q (want \"new\")", off2, off, v, s)
			}
			return false, ""
		})

	registerKF("f16-enum-hash-collision", "C01",
		"enum strings whose xxh3 hashes agree in the low 32 bits (\"e14884\", \"e28738\") were interned as one entry",
		func() (bool, string) {
			c, _ := kfCollection(ColSpec{Name: "e", Kind: KEnum})
			defer c.Close()
			a, _ := c.Insert(func(r column.Row) error { r.SetEnum("e", "e14884"); return nil })
			b, _ := c.Insert(func(r column.Row) error { r.SetEnum("e", "e28738"); return nil })
			var va, vb string
			c.QueryAt(a, func(r column.Row) error { va, _ = r.Enum("e"); return nil })
			c.QueryAt(b, func(r column.Row) error { vb, _ = r.Enum("e"); return nil })
			if va != "e14884" || vb != "e28738" {
				return true, fmt.Sprintf("rows read %q and %q, want \"e14884\" and \"e28738\"", va, vb)
			}
			return false, ""
		})

	registerKF("f21-string-merge-alias", "C01",
		"a string merged with the default merge function was stored as a view of the pooled transaction buffer and changed when later transactions reused the buffer",
		func() (bool, string) {
			c, _ := kfCollection(ColSpec{Name: "s", Kind: KString})
			defer c.Close()
			a, _ := c.Insert(func(r column.Row) error { return nil })
			b, _ := c.Insert(func(r column.Row) error { return nil })
			c.QueryAt(a, func(r column.Row) error { r.MergeString("s", "hello"); return nil })
			for i := 0; i < 50; i++ {
				c.QueryAt(b, func(r column.Row) error { r.SetString("s", "XXXXXXXXXXXXXXXX"); return nil })
			}
			var v string
			c.QueryAt(a, func(r column.Row) error { v, _ = r.String("s"); return nil })
			if v != "hello" {
				return true, fmt.Sprintf("MergeString(\"hello\") reads back %q after unrelated transactions", v)
			}
			return false, ""
		})
}

func init() {
	registerKF("f10-inflight-insert-visible", "C02,C08,C11",
		"offsets reserved by the inserts of a transaction that has not committed yet are visible to other readers (ghost rows in Range/Count) and to snapshots, because reservations are made in the shared fill-list",
		func() (bool, string) {
			c, _ := kfCollection(ColSpec{Name: "v", Kind: KInt})
			defer c.Close()
			c.Insert(func(r column.Row) error { r.SetInt("v", 1); return nil })
			seen, count := 0, 0
			c.Query(func(txn *column.Txn) error {
				txn.Insert(func(r column.Row) error { r.SetInt("v", 2); return nil })
				// another transaction, while this one is still in flight
				c.Query(func(other *column.Txn) error {
					seen = other.Count()
					return nil
				})
				count = c.Count()
				return nil
			})
			if seen != 1 || count != 1 {
				return true, fmt.Sprintf("while an insert is in flight another transaction counts %d rows and Count() is %d; 1 row is committed", seen, count)
			}
			return false, ""
		})
}

func init() {
	registerKF("f22a-failed-insert-offset-reuse", "C02,C11,C01",
		"an insert whose callback failed gave its offset back at once but kept its insert marker and the stores it buffered; when the body swallowed the error and committed, a ghost row appeared, or a later insert of the same transaction reused the offset and exposed the failed insert's values",
		func() (bool, string) {
			c, _ := kfCollection(ColSpec{Name: "v", Kind: KInt})
			defer c.Close()
			var off uint32
			c.Query(func(txn *column.Txn) error {
				txn.Insert(func(r column.Row) error { r.SetInt("v", 7); return errStep }) // error swallowed
				off, _ = txn.Insert(func(r column.Row) error { return nil })
				return nil
			})
			var v int
			var ok bool
			c.QueryAt(off, func(r column.Row) error { v, ok = r.Int("v"); return nil })
			if ok || c.Count() != 1 {
				return true, fmt.Sprintf("txn[insert{v=7}!fail; insert] commit: row %d reads v=%d,%v (want absent), Count()=%d (want 1)", off, v, ok, c.Count())
			}
			return false, ""
		})
	registerKF("f28-rollback-after-failed-insert-erases-foreign-row", "C02,C11",
		"an insert whose callback failed gave its offset back at once while the transaction kept an insert marker for it; another transaction that inserted before the first one rolled back was handed that offset, and the rollback then released it a second time: the other transaction's COMMITTED row disappeared",
		func() (bool, string) {
			c, _ := kfCollection(ColSpec{Name: "v", Kind: KInt})
			defer c.Close()
			var other uint32
			c.Query(func(txn *column.Txn) error {
				_, err := txn.Insert(func(r column.Row) error { return errStep })
				// another transaction inserts and commits meanwhile (nested here; another goroutine in production)
				other, _ = c.Insert(func(r column.Row) error { r.SetInt("v", 99); return nil })
				return err // the documented pattern: the body propagates the error => rollback
			})
			var v int
			var ok bool
			c.QueryAt(other, func(r column.Row) error { v, ok = r.Int("v"); return nil })
			n := 0
			c.Query(func(txn *column.Txn) error { n = txn.Count(); return nil })
			if !ok || v != 99 || n != 1 || c.Count() != 1 {
				return true, fmt.Sprintf("txn1[insert!fail] ... txn2[insert{v=99}] commits at offset %d ... txn1 rolls back: %d rows visible, Count()=%d (want 1), v=%d,%v", other, n, c.Count(), v, ok)
			}
			return false, ""
		})
	registerKF("f22-swallowed-insert-failure", "C15,C19",
		"an insert whose callback fails cannot be withdrawn from the transaction: when the body swallows the error and commits, the commit carries the insert marker, the callback's stores and a delete marker - a commit is emitted (and triggers are called) for a row that never came into existence",
		func() (bool, string) {
			log := &recLogger{}
			c := column.NewCollection(column.Options{Vacuum: 24 * 3600 * 1e9, Writer: log})
			defer c.Close()
			c.CreateColumn("v", column.ForInt())
			c.Insert(func(r column.Row) error { r.SetInt("v", 1); return nil })
			n0 := log.Len()
			c.Query(func(txn *column.Txn) error {
				txn.Insert(func(r column.Row) error { r.SetInt("v", 7); return errStep }) // error swallowed
				return nil
			})
			if n := log.Len() - n0; n != 0 || c.Count() != 1 {
				return true, fmt.Sprintf("txn[insert{v=7}!fail] commit (nothing changed, Count()=%d): %d commit(s) emitted to the change stream", c.Count(), n)
			}
			return false, ""
		})
}

func init() {
	registerKF("f09-rollback-leaks-inserts", "C02,C11",
		"a transaction with successful inserts that rolled back kept their offsets reserved: ghost rows in Range/Count",
		func() (bool, string) {
			c, _ := kfCollection(ColSpec{Name: "v", Kind: KInt})
			defer c.Close()
			c.Query(func(txn *column.Txn) error {
				txn.Insert(func(r column.Row) error { r.SetInt("v", 1); return nil })
				return errRollback
			})
			n := 0
			c.Query(func(txn *column.Txn) error { n = txn.Count(); return nil })
			off, _ := c.Insert(func(r column.Row) error { return nil })
			if n != 0 || c.Count() != 1 || off != 0 {
				return true, fmt.Sprintf("after rolling back txn[insert]: %d rows visible (want 0); next insert got offset %d (want 0), Count()=%d (want 1)", n, off, c.Count())
			}
			return false, ""
		})
}

func init() {
	registerKF("f23-snapshot-empty-fill-panic", "C02,C14,C07",
		"Snapshot panicked (index out of range on commits[]) on a collection that never committed a row but whose fill-list had been allocated by a failed or rolled-back insert",
		func() (bool, string) {
			c, _ := kfCollection(ColSpec{Name: "v", Kind: KInt})
			defer c.Close()
			c.Insert(func(r column.Row) error { return errStep })
			var buf bytes.Buffer
			if err := c.Snapshot(&buf); err != nil { // panicked before the repair (caught by the registry)
				return true, "Snapshot: " + err.Error()
			}
			return false, ""
		})
}

func init() {
	registerKF("f04-rekey-keeps-old-key", "C12,C02",
		"re-keying a row (SetKey on a row that has a key) left the old key in the lookup table",
		func() (bool, string) {
			c, _ := kfCollection(ColSpec{Name: "pk", Kind: KKey})
			defer c.Close()
			c.InsertKey("a", func(r column.Row) error { return nil })
			c.QueryKey("a", func(r column.Row) error { r.SetKey("b"); return nil })
			errA := c.QueryKey("a", func(r column.Row) error { return nil })
			errB := c.QueryKey("b", func(r column.Row) error { return nil })
			errIns := c.InsertKey("a", func(r column.Row) error { return nil })
			if errA == nil || errB != nil || errIns != nil {
				return true, fmt.Sprintf("after re-keying a->b: QueryKey(a) err=%v (want error), QueryKey(b) err=%v (want nil), InsertKey(a) err=%v (want nil)", errA, errB, errIns)
			}
			return false, ""
		})
}

func init() {
	registerKF("f02-enum-snapshot-relative", "C07,C03,C02",
		"columnEnum.Snapshot wrote block-relative offsets: enum values of rows in blocks >= 1 were restored (and index-backfilled) onto block 0",
		func() (bool, string) {
			c, s := kfCollection(ColSpec{Name: "e", Kind: KEnum})
			defer c.Close()
			var last uint32
			c.Query(func(txn *column.Txn) error {
				for i := 0; i < 16390; i++ {
					last, _ = txn.Insert(func(r column.Row) error {
						if i >= 16384 {
							r.SetEnum("e", "hi")
						}
						return nil
					})
				}
				return nil
			})
			var buf bytes.Buffer
			if err := c.Snapshot(&buf); err != nil {
				return true, err.Error()
			}
			d := newCollection(s, column.Options{})
			defer d.Close()
			if err := d.Restore(&buf); err != nil {
				return true, err.Error()
			}
			var lo, hi string
			var okLo, okHi bool
			d.QueryAt(5, func(r column.Row) error { lo, okLo = r.Enum("e"); return nil })
			d.QueryAt(last, func(r column.Row) error { hi, okHi = r.Enum("e"); return nil })
			if okLo || !okHi || hi != "hi" {
				return true, fmt.Sprintf("restored: row 5 reads %q,%v (want absent), row %d reads %q,%v (want \"hi\")", lo, okLo, last, hi, okHi)
			}
			return false, ""
		})
}

func init() {
	registerKF("f24-double-delete-double-trigger", "C19",
		"deleting the same row twice inside one transaction (DeleteAt returns true both times) reports the deletion to triggers twice",
		func() (bool, string) {
			c, _ := kfCollection(ColSpec{Name: "v", Kind: KInt})
			defer c.Close()
			off, _ := c.Insert(func(r column.Row) error { r.SetInt("v", 1); return nil })
			n := 0
			c.CreateTrigger("t", "v", func(r column.Reader) {
				if r.IsDelete() {
					n++
				}
			})
			c.Query(func(txn *column.Txn) error { txn.DeleteAt(off); txn.DeleteAt(off); return nil })
			if n != 1 {
				return true, fmt.Sprintf("txn[delete@%d; delete@%d] commit: trigger received %d delete events for one row deletion", off, off, n)
			}
			return false, ""
		})
}

func init() {
	registerKF("f03-sortindex-equal-keys", "C16",
		"the sort index ordered items by the string only: rows with equal values replaced each other and deleting one removed another",
		func() (bool, string) {
			c, _ := kfCollection(ColSpec{Name: "s", Kind: KString})
			defer c.Close()
			c.CreateSortIndex("sorted", "s")
			for i := 0; i < 3; i++ {
				c.Insert(func(r column.Row) error { r.SetString("s", "same"); return nil })
			}
			c.DeleteAt(1)
			var seen []uint32
			c.Query(func(txn *column.Txn) error {
				return txn.Ascend("sorted", func(idx uint32) { seen = append(seen, idx) })
			})
			if len(seen) != 2 {
				return true, fmt.Sprintf("3 rows hold \"same\", row 1 deleted: Ascend visits %v, want rows 0 and 2", seen)
			}
			return false, ""
		})
}

func init() {
	registerKF("f13-aggregates-ignore-presence", "C04",
		"Sum/Avg/Min/Max run over every selected row and ignore whether the row holds a value in the column: absent rows count as zeros (Avg divides by all selected rows, Min/Max see phantom zeros) and stale values of deleted occupants are included",
		func() (bool, string) {
			c, _ := kfCollection(ColSpec{Name: "v", Kind: KInt})
			defer c.Close()
			c.Insert(func(r column.Row) error { r.SetInt("v", 5); return nil })
			c.Insert(func(r column.Row) error { return nil })
			var avg float64
			var mn int
			var ok bool
			c.Query(func(txn *column.Txn) error {
				avg = txn.Int("v").Avg()
				mn, ok = txn.Int("v").Min()
				return nil
			})
			if avg != 5 || mn != 5 || !ok {
				return true, fmt.Sprintf("rows {v=5} and {v absent}: Avg()=%v (want 5), Min()=%d,%v (want 5,true)", avg, mn, ok)
			}
			return false, ""
		})

	registerKF("f14-withunion-single-widens", "C04",
		"WithUnion with a single name on a transaction that was already narrowed behaves like Union (adds rows) instead of intersecting",
		func() (bool, string) {
			c, _ := kfCollection(ColSpec{Name: "a", Kind: KBool}, ColSpec{Name: "b", Kind: KBool})
			defer c.Close()
			c.Insert(func(r column.Row) error { r.SetBool("a", true); return nil })
			c.Insert(func(r column.Row) error { r.SetBool("b", true); return nil })
			c.Insert(func(r column.Row) error { return nil })
			n := -1
			c.Query(func(txn *column.Txn) error { n = txn.With("a").WithUnion("b").Count(); return nil })
			if n != 0 {
				return true, fmt.Sprintf("rows {a},{b},{}: With(a).WithUnion(b) selects %d rows, a AND (b) is empty", n)
			}
			return false, ""
		})
}

func init() {
	registerKF("f25-union-after-missing-name", "C04",
		"a filter that names a missing column (With/WithValue/WithInt/... on an unknown or wrongly typed column) empties the selection by truncating it to length 0; a later Union or WithUnion in the same chain then cannot add rows (the union of nothing and X stays empty)",
		func() (bool, string) {
			c, _ := kfCollection(ColSpec{Name: "a", Kind: KBool})
			defer c.Close()
			c.Insert(func(r column.Row) error { r.SetBool("a", true); return nil })
			n := -1
			c.Query(func(txn *column.Txn) error { n = txn.With("missing").Union("a").Count(); return nil })
			if n != 1 {
				return true, fmt.Sprintf("one row with a=true: With(missing).Union(a) selects %d rows, set algebra gives 1", n)
			}
			return false, ""
		})
}

func init() {
	registerKF("f01-clone-drops-id", "C15,C05",
		"commit.Commit.Clone did not copy the ID: every commit received through commit.Channel had ID 0",
		func() (bool, string) {
			cm := commit.Commit{ID: 42, Chunk: 3}
			if cl := cm.Clone(); cl.ID != 42 || cl.Chunk != 3 {
				return true, fmt.Sprintf("Clone of {ID:42 Chunk:3} is {ID:%d Chunk:%d}", cl.ID, cl.Chunk)
			}
			return false, ""
		})
}

// schedRepro enumerates all interleavings of the fixed configuration
// "2 writers x 2 blocks each" and reports the first failure of one property's oracle.
func schedRepro(prop string) (bool, string) {
	p := fixedPrograms()["2 writers x 2 blocks each"]
	enum := &dfsEnum{}
	for {
		enum.pos = 0
		r := startConcRun(p, 1024)
		r.S.Pick = enum.pick
		ok := r.S.Run()
		if !ok {
			r.Close()
			return true, r.S.Hang + r.S.Panic
		}
		fails, _, _ := checkWriterRun(r)
		r.Close()
		for _, f := range fails {
			if f.Prop == prop {
				return true, fmt.Sprintf("%s [schedule %s]", f.Msg, r.S.TraceString())
			}
		}
		if !enum.next() {
			return false, ""
		}
	}
}

func init() {
	registerKF("f07-commit-id-before-latch", "C15,C08",
		"the commit ID was drawn before the block latch: with two writers racing for a block the IDs did not increase in apply order",
		func() (bool, string) { return schedRepro("C15") })
	registerKF("f18-replay-applies-other-chunks", "C06",
		"Replay of a cloned commit re-applied the transaction's other blocks: a replica regressed under interleaved multi-block writers",
		func() (bool, string) { return schedRepro("C06") })
}

func init() {
	registerKF("f26-key-ops-act-on-stale-offset", "C12",
		"DeleteKey/QueryKey/UpsertKey resolve the key to an offset when they are issued and queue offset-based work; if the row is deleted and the offset re-used before the transaction commits (by a concurrent transaction), the queued work hits the wrong row",
		func() (bool, string) {
			c, _ := kfCollection(ColSpec{Name: "pk", Kind: KKey})
			defer c.Close()
			c.InsertKey("a", func(r column.Row) error { return nil })
			c.Query(func(txn *column.Txn) error {
				txn.DeleteKey("a") // resolves "a" to offset 0 now, applies at commit
				// meanwhile (another transaction; here from the same goroutine, no lock is held):
				c.DeleteKey("a")
				c.InsertKey("b", func(r column.Row) error { return nil }) // re-uses offset 0
				return nil
			})
			errB := c.QueryKey("b", func(r column.Row) error { return nil })
			if errB != nil {
				return true, fmt.Sprintf("txn1[deleteKey(a)] overlapping deleteKey(a); insertKey(b): key \"b\", which nobody deleted, is gone (QueryKey(b): %v)", errB)
			}
			return false, ""
		})
}

func init() {
	registerKF("f27-seek-keeps-range-start", "C05",
		"commit.Reader.Seek did not reset the offset base (start) that a previous Range left behind: Seek, Rewind, Next on a re-used reader returned every offset shifted by it",
		func() (bool, string) {
			a := commit.NewBuffer(8)
			a.Reset("a")
			a.PutUint16(commit.Put, 16384+7, 1) // a section whose offset base is 0 ... and one that starts at 16391
			a.PutUint16(commit.Put, 3, 2)
			a.PutUint16(commit.Put, 16384+9, 3)
			b := commit.NewBuffer(8)
			b.Reset("b")
			b.PutUint16(commit.Put, 5, 9)
			r := commit.NewReader()
			r.Range(a, 1, func(r *commit.Reader) {
				for r.Next() {
				}
			})
			r.Seek(b)
			r.Rewind()
			if !r.Next() || r.Index() != 5 {
				return true, fmt.Sprintf("after Range over another buffer: Seek, Rewind, Next yields offset %d for the operation written at offset 5", r.Index())
			}
			return false, ""
		})
}

// kfOmit is a record whose decoder - like encoding/json with omitempty, the codec of the
// README's record example - leaves alone what its input does not mention.
type kfOmit struct {
	N     uint32
	Email string
}

func (p *kfOmit) MarshalBinary() ([]byte, error) {
	out := []byte{byte(p.N >> 24), byte(p.N >> 16), byte(p.N >> 8), byte(p.N)}
	return append(out, p.Email...), nil
}

func (p *kfOmit) UnmarshalBinary(b []byte) error {
	if len(b) < 4 {
		return fmt.Errorf("short")
	}
	p.N = uint32(b[0])<<24 | uint32(b[1])<<16 | uint32(b[2])<<8 | uint32(b[3])
	if len(b) > 4 {
		p.Email = string(b[4:]) // an absent e-mail is not mentioned: the field is left alone
	}
	return nil
}

func init() {
	registerKF("f29-record-merge-reuses-dirty-pooled-record", "C01,C09",
		"the record merge decoded stored value and delta into pooled record instances without resetting them: with a decoder that leaves unmentioned fields alone (encoding/json, the README's example codec) a merge saw fields of the record the instance had been used for before",
		func() (bool, string) {
			c := column.NewCollection(column.Options{Vacuum: 24 * 3600 * 1e9})
			defer c.Close()
			c.CreateColumn("p", column.ForRecord(func() *kfOmit { return new(kfOmit) }, column.WithMerge(func(v, d *kfOmit) *kfOmit {
				v.N += d.N
				if d.Email != "" {
					v.Email = d.Email
				}
				return v
			})))
			c.Insert(func(r column.Row) error { r.SetRecord("p", &kfOmit{N: 1, Email: "a@x"}); return nil })
			c.Insert(func(r column.Row) error { r.SetRecord("p", &kfOmit{N: 1}); return nil })
			for i := 0; i < 4; i++ {
				c.QueryAt(0, func(r column.Row) error { r.MergeRecord("p", &kfOmit{N: 1}); return nil })
				c.QueryAt(1, func(r column.Row) error { r.MergeRecord("p", &kfOmit{N: 1}); return nil })
			}
			var got *kfOmit
			c.QueryAt(1, func(r column.Row) error {
				if v, ok := r.Record("p"); ok {
					got = v.(*kfOmit)
				}
				return nil
			})
			if got == nil || got.N != 5 || got.Email != "" {
				return true, fmt.Sprintf("row 1 was stored as {N:1} and merged with {N:1} four times; it reads %+v (the e-mail belongs to row 0)", got)
			}
			return false, ""
		})
}

func init() {
	registerKF("f30-requeued-merge-result-applied-again", "C01,C09",
		"a merged string/record value of another length is re-queued at the end of the transaction buffer; when the buffer's last section belonged to the same block and had not been applied yet, the column's own pass read the re-queued value there and applied it AFTER the later operations of that section: merge@5 'a'; store in another block; merge@5 'b' => the row read \"_a\" instead of \"_ab\"",
		func() (bool, string) {
			c := column.NewCollection(column.Options{Vacuum: 24 * 3600 * 1e9})
			defer c.Close()
			c.CreateColumn("s", column.ForString(column.WithMerge(func(v, d string) string { return v + d })))
			c.Query(func(txn *column.Txn) error {
				for i := 0; i < 16390; i++ {
					txn.Insert(func(r column.Row) error { r.SetString("s", "_"); return nil })
				}
				return nil
			})
			c.Query(func(txn *column.Txn) error {
				txn.QueryAt(5, func(r column.Row) error { r.MergeString("s", "a"); return nil })
				txn.QueryAt(16385, func(r column.Row) error { r.MergeString("s", "x"); return nil })
				txn.QueryAt(5, func(r column.Row) error { r.MergeString("s", "b"); return nil })
				return nil
			})
			var got string
			c.QueryAt(5, func(r column.Row) error { got, _ = r.String("s"); return nil })
			if got != "_ab" {
				return true, fmt.Sprintf("txn[merge@5 \"a\"; merge@16385 \"x\"; merge@5 \"b\"] on rows holding \"_\" with a concatenating merge: row 5 reads %q, want \"_ab\"", got)
			}
			return false, ""
		})
}
