package harness

import (
	"fmt"
	"sort"
	"sync"
	"testing"

	"github.com/kelindar/column"
	"pgregory.net/rapid"
)

// ---------------------------------------------------------------------------
// C19 — triggers fire once per committed change, with the final value
// ---------------------------------------------------------------------------

type trigEvent struct {
	Off    uint32
	Delete bool
	V      Value
}

type trigState struct {
	Name       string
	Col        int
	Dropped    bool
	Events     []trigEvent
	Late       int        // calls received after DropTrigger
	DropOnCall *trigState // when set: the next call of this trigger drops that other trigger from inside the commit
	Unjudged   bool       // this trigger was dropped in the middle of the current transaction's commit
}

// expectedPuts computes, per row, the values a trigger on column col must be
// given for a committed transaction: the value finally stored by each store, in
// issue order.
func expectedPuts(m *Model, spec TxnSpec, res []StepResult, pre map[uint32]MRow, col int) map[uint32][]Cell {
	out := map[uint32][]Cell{}
	cur := map[uint32]Cell{}
	cs := m.Sch.Cols[col]
	scratch := &Model{Sch: m.Sch, ColLive: m.ColLive}
	for i, st := range spec.Steps {
		var row uint32
		switch st.Kind {
		case SUpdate:
			row = st.Row
		case SOwnUpdate:
			row = res[st.Row].Offset
		case SInsert, SInsertKey, SUpsertKey, SQueryKey:
			if !res[i].Ran || st.Fail {
				continue
			}
			row = res[i].Offset
		default:
			continue
		}
		for _, s := range st.Stores {
			if s.Col != col {
				continue
			}
			c, ok := cur[row]
			if !ok {
				if p, had := pre[row]; had {
					c = p[col]
				}
			}
			tmp := make(MRow, len(m.Sch.Cols))
			tmp[col] = c
			scratch.applyStore(tmp, s)
			cur[row] = tmp[col]
			out[row] = append(out[row], tmp[col])
		}
	}
	_ = cs
	return out
}

func TestC19(t *testing.T) {
	rapid.Check(t, func(t *rapid.T) {
		sch := genSchema(t, SchemaCfg{Key: 1, Merges: true, EnsureLenMerge: true, MinCols: 1, MaxCols: 3,
			Kinds: []Kind{KInt, KInt16, KInt32, KInt64, KUint, KUint16, KUint32, KUint64, KFloat32, KFloat64, KString, KString, KBool, KEnum, KRecord}})
		mc := NewMachine("C19", sch, column.Options{})
		defer mc.Close()
		defer mc.Guard(t)
		cfg := TxnCfg{Prop: "C19", MaxSteps: 10, Peeks: true, Rollback: true, Deletes: true, Inserts: true, Merges: true, OwnUpdates: true, Direct: true,
			NoStoreOnDel: KFActive("f11-store-and-delete-same-txn"), NoOpAfterLenMerge: KFActive("f15-difflen-merge-reorder"), NoDoubleDelete: KFActive("f24-double-delete-double-trigger")}
		var trigs []*trigState
		seq := 0
		interesting := false

		// makeTrigger creates a trigger on column col and registers it for judgement.
		makeTrigger := func(t *rapid.T, col int) *trigState {
			seq++
			tr := &trigState{Name: fmt.Sprintf("trig%d", seq), Col: col}
			kind := sch.Cols[tr.Col].Kind
			mc.logf("createTrigger %s on %s", tr.Name, sch.Cols[tr.Col].Name)
			err := mc.C.CreateTrigger(tr.Name, sch.Cols[tr.Col].Name, func(r column.Reader) {
				if tr.Dropped {
					if !tr.Unjudged {
						tr.Late++
					}
					return
				}
				if victim := tr.DropOnCall; victim != nil {
					tr.DropOnCall = nil
					if !victim.Dropped {
						mc.logf("  [trigger %s drops trigger %s from inside the commit]", tr.Name, victim.Name)
						mc.C.DropTrigger(victim.Name)
						victim.Dropped, victim.Unjudged = true, true
					}
				}
				ev := trigEvent{Off: r.Index(), Delete: r.IsDelete()}
				if r.IsUpsert() {
					ev.V = decodeReader(kind, r)
				}
				tr.Events = append(tr.Events, ev)
			})
			if err != nil {
				mc.fail(t, "CreateTrigger: %v", err)
			}
			trigs = append(trigs, tr)
			return tr
		}
		// DDL armed for the moment the next committing transaction stands in front of its first block
		// latch (yield point commit:pre-latch, no lock held; issued from the committing goroutine
		// itself): a trigger created there exists before anything of the commit is applied and must
		// be told everything, a trigger dropped there must be told nothing.
		ddlCreateCol, ddlDrop := -1, (*trigState)(nil)
		defer column.SetVerifHook(nil)

		runTxn := func(t *rapid.T) {
			spec := genTxn(t, mc.M, mc.Recent, cfg)
			pre := map[uint32]MRow{}
			for _, st := range spec.Steps {
				switch st.Kind {
				case SUpdate, SDelete:
					if r, ok := mc.M.Rows[st.Row]; ok {
						pre[st.Row] = r.clone()
					}
				case SUpsertKey, SQueryKey, SDeleteKey:
					if at, ok := mc.M.KeyOf(st.Key); ok {
						pre[at] = mc.M.Rows[at].clone()
					}
				}
			}
			for _, tr := range trigs {
				tr.Events = tr.Events[:0]
			}
			direct := len(spec.Steps) == 1 && spec.FailAt < 0 && rapid.Bool().Draw(t, "direct")
			if ddlCreateCol >= 0 || ddlDrop != nil {
				column.SetVerifHook(func(point string, block uint32) {
					if point != "commit:pre-latch" {
						return
					}
					column.SetVerifHook(nil)
					if ddlCreateCol >= 0 {
						mc.logf("  [in front of the commit's first latch:]")
						makeTrigger(t, ddlCreateCol)
						mc.flag("trigger-created-in-front-of-the-latch")
						interesting = true
					}
					if ddlDrop != nil && !ddlDrop.Dropped {
						mc.logf("  [in front of the commit's first latch: dropTrigger %s]", ddlDrop.Name)
						if err := mc.C.DropTrigger(ddlDrop.Name); err != nil {
							mc.fail(t, "DropTrigger: %v", err)
						}
						ddlDrop.Dropped = true
						mc.flag("trigger-dropped-in-front-of-the-latch")
						interesting = true
					}
					ddlCreateCol, ddlDrop = -1, nil
				})
			}
			eff, committed := mc.RunTxn(t, spec, direct)
			column.SetVerifHook(nil)
			res := mc.lastRes
			deleted := map[uint32]bool{}
			if committed {
				for _, off := range eff.Deleted {
					deleted[off] = true
				}
			}
			for _, tr := range trigs {
				if tr.Unjudged {
					tr.Unjudged = false // dropped during this very commit: its calls in this transaction are not judged
					continue
				}
				if tr.Dropped {
					if tr.Late > 0 {
						mc.fail(t, "trigger %s was called %d time(s) after DropTrigger", tr.Name, tr.Late)
					}
					continue
				}
				if !committed {
					if len(tr.Events) != 0 {
						mc.fail(t, "trigger %s on %s was called %d time(s) for a transaction that rolled back: %v", tr.Name, sch.Cols[tr.Col].Name, len(tr.Events), tr.Events)
					}
					if len(spec.Steps) > 0 {
						interesting = true
						mc.flag("rollback-with-trigger")
					}
					continue
				}
				want := expectedPuts(mc.M, spec, res, pre, tr.Col)
				gotPuts := map[uint32][]Value{}
				gotDel := map[uint32]int{}
				for _, ev := range tr.Events {
					if ev.Delete {
						gotDel[ev.Off]++
					} else {
						gotPuts[ev.Off] = append(gotPuts[ev.Off], ev.V)
					}
				}
				kind := sch.Cols[tr.Col].Kind
				if kind == KBool {
					// A bool column encodes "store false" and "row deleted" as the same operation, so a
					// trigger on it cannot tell them apart: stores of true must be reported as stores of
					// true, stores of false and row deletions as one delete each.
					rows := map[uint32]bool{}
					for off := range want {
						rows[off] = true
					}
					for off := range gotPuts {
						rows[off] = true
					}
					for off := range gotDel {
						rows[off] = true
					}
					for off := range deleted {
						rows[off] = true
					}
					for off := range rows {
						wantTrue, wantFalse := 0, 0
						for _, c := range want[off] {
							if c.Has && c.V.B != 0 {
								wantTrue++
							} else {
								wantFalse++
							}
						}
						for _, v := range gotPuts[off] {
							if v.B == 0 {
								mc.fail(t, "trigger %s on bool column %s: row %d: a store was reported with the value false as an upsert", tr.Name, sch.Cols[tr.Col].Name, off)
							}
						}
						if deleted[off] {
							if gotDel[off] < 1 || gotDel[off] > 1+wantFalse || len(gotPuts[off]) > wantTrue {
								mc.fail(t, "trigger %s on bool column %s: row %d was deleted by the transaction (which also stored true %d and false %d time(s) into it): %d delete(s) and %d store(s) of true reported", tr.Name, sch.Cols[tr.Col].Name, off, wantTrue, wantFalse, gotDel[off], len(gotPuts[off]))
							}
							continue
						}
						if len(gotPuts[off]) != wantTrue || gotDel[off] != wantFalse {
							mc.fail(t, "trigger %s on bool column %s: row %d: the transaction committed %d store(s) of true and %d of false; the trigger was called %d time(s) with true and %d time(s) with false/delete", tr.Name, sch.Cols[tr.Col].Name, off, wantTrue, wantFalse, len(gotPuts[off]), gotDel[off])
						}
						if wantTrue+wantFalse >= 2 {
							mc.flag("several-stores-one-row")
						}
					}
					if len(deleted) > 0 {
						interesting = true
						mc.flag("delete-with-trigger")
					}
					continue
				}
				for off, w := range want {
					if deleted[off] {
						continue // stores into a row the same transaction deletes: not judged
					}
					g := gotPuts[off]
					if len(g) != len(w) {
						mc.fail(t, "trigger %s on %s: row %d: called %d time(s) for %d committed store(s); got %v", tr.Name, sch.Cols[tr.Col].Name, off, len(g), len(w), renderVals(kind, g))
					}
					for i := range w {
						if !cellEqual(kind, w[i], Cell{Has: true, V: g[i]}) {
							mc.fail(t, "trigger %s on %s: row %d: store #%d reported %s, value finally stored is %s (all: %v)", tr.Name, sch.Cols[tr.Col].Name, off, i, g[i].render(kind), w[i].V.render(kind), renderVals(kind, g))
						}
					}
					if len(w) >= 2 {
						mc.flag("several-stores-one-row")
					}
				}
				for off, g := range gotPuts {
					if _, ok := want[off]; !ok && !deleted[off] {
						mc.fail(t, "trigger %s on %s: called with a store on row %d (%v) that the transaction did not make", tr.Name, sch.Cols[tr.Col].Name, off, renderVals(kind, g))
					}
				}
				for off := range deleted {
					if gotDel[off] != 1 {
						mc.fail(t, "trigger %s: row %d was deleted by the transaction, delete reported %d time(s)", tr.Name, off, gotDel[off])
					}
				}
				for off, n := range gotDel {
					if !deleted[off] {
						mc.fail(t, "trigger %s: delete of row %d reported %d time(s), but the transaction did not delete a live row there", tr.Name, off, n)
					}
				}
				if len(deleted) > 0 {
					interesting = true
					mc.flag("delete-with-trigger")
				}
				// merge followed by a later put on the same row
				for _, st := range spec.Steps {
					m, p := false, false
					for _, s := range st.Stores {
						if s.Col == tr.Col && s.Merge {
							m = true
						}
						if s.Col == tr.Col && !s.Merge && m {
							p = true
						}
					}
					if p {
						interesting = true
						mc.flag("merge-then-put")
					}
				}
			}
			if committed {
				mc.CheckTouched(t, eff)
			}
			mc.CheckCount(t)
		}

		t.Repeat(map[string]func(*rapid.T){
			"txn":  runTxn,
			"txn2": runTxn,
			"txn3": runTxn,
			"prefill": func(t *rapid.T) {
				if len(mc.M.Rows) > 17000 {
					t.Skip("large enough")
				}
				n := rapid.SampledFrom([]int{3, 64, 200, 16390}).Draw(t, "n")
				if n > 1000 && mc.bigPrefills >= 1 {
					n = 9
				}
				if n > 1000 {
					mc.bigPrefills++
				}
				for _, tr := range trigs {
					tr.Events = tr.Events[:0]
				}
				cols := storableCols(mc.M, TxnCfg{})
				mc.ActPrefill(t, n, cols, rapid.Uint64().Draw(t, "seed"))
				for _, tr := range trigs {
					if tr.Dropped {
						continue
					}
					watched := false
					for _, c := range cols {
						if c == tr.Col {
							watched = true
						}
					}
					wantN := 0
					if watched {
						wantN = n
					}
					if len(tr.Events) != wantN {
						mc.fail(t, "trigger %s: prefill of %d rows (watched column stored: %v) produced %d calls", tr.Name, n, watched, len(tr.Events))
					}
				}
			},
			"createTrigger": func(t *rapid.T) {
				live := 0
				for _, tr := range trigs {
					if !tr.Dropped {
						live++
					}
				}
				if live >= 3 {
					t.Skip("enough triggers")
				}
				var cols []int
				for i, cs := range sch.Cols {
					if cs.Kind != KKey {
						cols = append(cols, i)
					}
				}
				makeTrigger(t, cols[rapid.IntRange(0, len(cols)-1).Draw(t, "trig-col")])
			},
			"armDDLInFrontOfLatch": func(t *rapid.T) {
				if ddlCreateCol >= 0 || ddlDrop != nil {
					t.Skip("already armed")
				}
				var live []*trigState
				for _, tr := range trigs {
					if !tr.Dropped {
						live = append(live, tr)
					}
				}
				if len(live) > 0 && rapid.Bool().Draw(t, "drop") {
					ddlDrop = live[rapid.IntRange(0, len(live)-1).Draw(t, "which")]
					mc.logf("arm: %s is dropped when the next commit stands in front of its first latch", ddlDrop.Name)
					return
				}
				var cols []int
				for i, cs := range sch.Cols {
					if cs.Kind != KKey {
						cols = append(cols, i)
					}
				}
				ddlCreateCol = cols[rapid.IntRange(0, len(cols)-1).Draw(t, "trig-col")]
				mc.logf("arm: a trigger on %s is created when the next commit stands in front of its first latch", sch.Cols[ddlCreateCol].Name)
			},
			"armDropInsideCommit": func(t *rapid.T) {
				// the next time trigger A is called (inside a commit), it drops trigger B on the same column
				var live []*trigState
				for _, tr := range trigs {
					if !tr.Dropped {
						live = append(live, tr)
					}
				}
				for _, a := range live {
					for _, b := range live {
						if a != b && a.Col == b.Col && a.DropOnCall == nil {
							a.DropOnCall = b
							mc.logf("arm: the next call of %s drops %s", a.Name, b.Name)
							mc.flag("drop-inside-commit-armed")
							return
						}
					}
				}
				t.Skip("needs two live triggers on one column")
			},
			"dropTrigger": func(t *rapid.T) {
				var live []*trigState
				for _, tr := range trigs {
					if !tr.Dropped {
						live = append(live, tr)
					}
				}
				if len(live) == 0 {
					t.Skip("no trigger")
				}
				tr := live[rapid.IntRange(0, len(live)-1).Draw(t, "drop")]
				mc.logf("dropTrigger %s", tr.Name)
				if err := mc.C.DropTrigger(tr.Name); err != nil {
					mc.fail(t, "DropTrigger: %v", err)
				}
				tr.Dropped = true
				mc.flag("trigger-dropped")
			},
			"bulkDelete": func(t *rapid.T) {
				for _, tr := range trigs {
					tr.Events = tr.Events[:0]
				}
				before := len(mc.M.Rows)
				mc.ActBulkDelete(t)
				gone := before - len(mc.M.Rows)
				for _, tr := range trigs {
					if !tr.Dropped && len(tr.Events) != gone {
						mc.fail(t, "trigger %s: bulk delete of %d rows produced %d calls", tr.Name, gone, len(tr.Events))
					}
				}
			},
		})
		for _, tr := range trigs {
			if tr.Late > 0 {
				mc.fail(t, "trigger %s was called %d time(s) after DropTrigger", tr.Name, tr.Late)
			}
		}
		mc.CheckFull(t, false)
		RecordCase("C19", mc.Desc(), interesting && len(trigs) > 0, mc.Labels()...)
	})
}

func renderVals(k Kind, vs []Value) []string {
	out := make([]string, len(vs))
	for i, v := range vs {
		out[i] = v.render(k)
	}
	sort.Strings(out[:0])
	return out
}

// ---------------------------------------------------------------------------
// TestC19Parallel: triggers (and indexes) are CREATED concurrently by several goroutines
// (common start barrier), the history then continues sequentially: one committed store and
// one committed row deletion must reach every trigger exactly once, every trigger can be
// dropped, and a dropped trigger is never called again. Schedule-independent oracle at
// quiescence; many short rounds per case because the window of a lost registration is small.
// ---------------------------------------------------------------------------

func TestC19Parallel(t *testing.T) {
	rapid.Check(t, func(t *rapid.T) {
		creators := rapid.IntRange(2, 8).Draw(t, "creators")
		rounds := rapid.IntRange(100, 600).Draw(t, "rounds")
		withIndexes := rapid.Bool().Draw(t, "indexes-too")
		c := column.NewCollection(column.Options{Capacity: 64, Vacuum: 24 * 3600 * 1e9})
		defer c.Close()
		c.CreateColumn("a", column.ForInt())
		c.CreateColumn("b", column.ForString())
		cols := []string{"a", "b"}
		var keep uint32
		c.Query(func(txn *column.Txn) error {
			keep, _ = txn.Insert(func(r column.Row) error { r.SetInt("a", 0); r.SetString("b", ""); return nil })
			return nil
		})
		type trig struct {
			name    string
			col     string
			puts    int
			dels    int
			bad     string
			dropped bool
		}
		for round := 0; round < rounds; round++ {
			trigs := make([]*trig, creators)
			errs := make([]error, creators)
			start := make(chan struct{})
			var wg sync.WaitGroup
			for g := 0; g < creators; g++ {
				tr := &trig{name: fmt.Sprintf("t%d_%d", round, g), col: cols[(g+round)%2]}
				trigs[g] = tr
				wg.Add(1)
				go func(g int) {
					defer wg.Done()
					<-start
					if withIndexes && g%3 == 2 {
						// an index created beside the triggers (same registry)
						errs[g] = c.CreateIndex(tr.name, "a", func(r column.Reader) bool { return r.Int() > 5 })
						return
					}
					errs[g] = c.CreateTrigger(tr.name, tr.col, func(r column.Reader) {
						switch {
						case tr.dropped:
							tr.bad = "called after DropTrigger"
						case r.IsDelete():
							tr.dels++
						case r.IsUpsert():
							tr.puts++
							if tr.col == "a" && r.Int() != round+1 || tr.col == "b" && r.String() != fmt.Sprint("v", round) {
								tr.bad = "called with a value that was not stored"
							}
						}
					})
				}(g)
			}
			close(start)
			wg.Wait()
			for g, err := range errs {
				if err != nil {
					t.Fatalf("C19 violated (round %d): creating %s beside %d other concurrent creations failed: %v", round, trigs[g].name, creators-1, err)
				}
			}
			// one committed store per column on a kept row, one inserted-and-deleted row
			var victim uint32
			c.Query(func(txn *column.Txn) error {
				victim, _ = txn.Insert(func(r column.Row) error { return nil })
				return txn.QueryAt(keep, func(r column.Row) error { r.SetInt("a", round+1); r.SetString("b", fmt.Sprint("v", round)); return nil })
			})
			c.DeleteAt(victim)
			for g, tr := range trigs {
				isIndex := withIndexes && g%3 == 2
				if !isIndex && (tr.puts != 1 || tr.dels != 1 || tr.bad != "") {
					t.Fatalf("C19 violated (round %d, %d triggers/indexes created concurrently): trigger %s on column %s was called %d time(s) for the one committed store and %d time(s) for the one committed row deletion %s", round, creators, tr.name, tr.col, tr.puts, tr.dels, tr.bad)
				}
				var err error
				if isIndex {
					err = c.DropIndex(tr.name)
				} else {
					err = c.DropTrigger(tr.name)
				}
				if err != nil {
					t.Fatalf("C19 violated (round %d, %d triggers/indexes created concurrently): %s was created successfully but cannot be dropped: %v", round, creators, tr.name, err)
				}
				tr.dropped = true
			}
			c.QueryAt(keep, func(r column.Row) error { r.SetInt("a", -1); r.SetString("b", "after-drop"); return nil })
			for _, tr := range trigs {
				if tr.bad != "" {
					t.Fatalf("C19 violated (round %d): trigger %s: %s", round, tr.name, tr.bad)
				}
			}
		}
		RecordCase("C19", fmt.Sprintf("parallel creation: %d creators x %d rounds indexes=%v", creators, rounds, withIndexes), true, "concurrent-trigger-creation")
	})
}

// TestC19ParallelStores: one trigger, several writers that commit into DIFFERENT blocks at the same
// moment (their commits run in parallel). Every writer stores unique values into rows of its own
// block and deletes some of them; at quiescence the trigger must have been told every committed
// store exactly once with the stored value, and every committed deletion exactly once.
func TestC19ParallelStores(t *testing.T) {
	rapid.Check(t, func(t *rapid.T) {
		blocks := rapid.IntRange(2, 4).Draw(t, "blocks")
		stores := rapid.IntRange(200, 1500).Draw(t, "stores-per-writer")
		c := column.NewCollection(column.Options{Capacity: 1024, Vacuum: 24 * 3600 * 1e9})
		defer c.Close()
		c.CreateColumn("v", column.ForInt())
		c.CreateColumn("s", column.ForString())
		c.Query(func(txn *column.Txn) error {
			for i := 0; i < blocks*16384-50; i++ {
				txn.Insert(func(r column.Row) error { return nil })
			}
			return nil
		})
		type ev struct {
			off uint32
			v   int
			del bool
		}
		var mu sync.Mutex
		got := map[ev]int{}
		if err := c.CreateTrigger("watch", "v", func(r column.Reader) {
			e := ev{off: r.Index(), del: r.IsDelete()}
			if r.IsUpsert() {
				e.v = r.Int()
			}
			mu.Lock()
			got[e]++
			mu.Unlock()
		}); err != nil {
			t.Fatal(err)
		}
		want := make([]map[ev]int, blocks)
		var wg sync.WaitGroup
		for w := 0; w < blocks; w++ {
			want[w] = map[ev]int{}
			wg.Add(1)
			go func(w int) {
				defer wg.Done()
				defer func() { recover() }()
				base := uint32(w) << 14
				for i := 0; i < stores; i++ {
					off := base + uint32(i%300)
					val := (w+1)*10_000_000 + i
					switch {
					case i%50 == 49:
						// a row of its own, stored and deleted again (one transaction each)
						row := base + 1000 + uint32(i)
						c.QueryAt(row, func(r column.Row) error { r.SetInt("v", val); return nil })
						want[w][ev{off: row, v: val}]++
						c.DeleteAt(row)
						want[w][ev{off: row, del: true}]++
					case i%7 == 0:
						c.QueryAt(off, func(r column.Row) error { r.MergeInt("v", val); r.SetString("s", "x"); return nil })
						// the merged value is reported: rows are only touched by their owner, so it is known
						cur := 0
						c.QueryAt(off, func(r column.Row) error { cur, _ = r.Int("v"); return nil })
						want[w][ev{off: off, v: cur}]++
					default:
						c.QueryAt(off, func(r column.Row) error { r.SetInt("v", val); return nil })
						want[w][ev{off: off, v: val}]++
					}
				}
			}(w)
		}
		wg.Wait()
		all := map[ev]int{}
		for _, m := range want {
			for e, n := range m {
				all[e] += n
			}
		}
		for e, n := range all {
			if got[e] != n {
				t.Fatalf("C19 violated (%d writers committing into different blocks at once): the trigger was called %d time(s) for %d committed %s of row %d (value %d)", blocks, got[e], n, map[bool]string{true: "deletion(s)", false: "store(s)"}[e.del], e.off, e.v)
			}
		}
		for e, n := range got {
			if all[e] == 0 {
				t.Fatalf("C19 violated (%d writers committing into different blocks at once): the trigger was called %d time(s) with row %d value %d delete=%v, which no transaction committed", blocks, n, e.off, e.v, e.del)
			}
		}
		RecordCase("C19", fmt.Sprintf("parallel stores: %d writers x %d stores", blocks, stores), true, "one-trigger-many-blocks")
	})
}
