package harness

import (
	"os"
	"strings"
	"testing"

	"github.com/kelindar/column/commit"
)

// decodeFuzzOps turns fuzzer bytes into the op grammar of C05 (a small
// data-provider layer, so that the fuzzer reaches the codec logic instead of
// dying in input validation).
func decodeFuzzOps(data []byte) ([]bop, int) {
	pos := 0
	next := func() byte {
		if pos >= len(data) {
			return 0
		}
		b := data[pos]
		pos++
		return b
	}
	variant := int(next() & 3)
	var ops []bop
	cur := int64(0)
	for pos < len(data) && len(ops) < 200 {
		shape, move := next(), next()
		mag := int64(next()) | int64(next())<<8
		switch move % 10 {
		case 0:
		case 1:
			cur++
		case 2:
			cur += mag & 0x7f
		case 3:
			cur += 128 + mag&0x3fff
		case 4:
			cur += 16384 + mag<<5
		case 5:
			cur += 1<<21 + mag<<12
		case 6:
			cur -= mag & 0xff
		case 7:
			cur -= 16384 + mag<<4
		case 8:
			cur = mag & 0x3fff
		default:
			cur = (mag&7)<<14 + (mag>>3)&0x3fff
		}
		if cur < 0 {
			cur = 0
		}
		if cur > 0x7fffffff {
			cur = 0x7fffffff
		}
		o := bop{Off: int32(cur)}
		val := func(n int) string {
			b := make([]byte, n)
			for i := range b {
				b[i] = next()
			}
			return string(b)
		}
		switch shape % 12 {
		case 0:
			o.Typ, o.Fixed = commit.Delete, 0
		case 1:
			o.Typ, o.Fixed = commit.Insert, 0
		case 2:
			o.Typ, o.Fixed = commit.PutTrue, 0
		case 3, 4, 5:
			o.Fixed = []int{2, 4, 8}[shape%3]
			o.Typ = commit.Put
			if shape&0x40 != 0 {
				o.Typ = commit.Merge
			}
			o.Val = val(o.Fixed)
			if o.Typ == commit.Merge {
				o.Swap = val(o.Fixed)
			}
		default:
			o.Fixed = -1
			o.Typ = commit.Put
			if shape&0x40 != 0 {
				o.Typ = commit.Merge
			}
			n := int(mag & 0x1f)
			if shape&0x80 != 0 && mag&0xff00 == 0xff00 {
				n = 65535 - int(mag&3)
			}
			if n > 64 {
				o.Val = strings.Repeat(string(rune('a'+n%26)), n)
			} else {
				o.Val = val(n)
			}
			if o.Typ == commit.Merge {
				m := int(next() & 0x1f)
				o.Swap = strings.Repeat("s", m)
				if o.Swap == "" {
					o.Swap = o.Val
				}
			}
		}
		ops = append(ops, o)
	}
	return ops, variant
}

// FuzzBufferOps is the coverage-guided (native go fuzz) variant of the C05
// check: the semantic oracle (checkC05) runs inside the target.
func FuzzBufferOps(f *testing.F) {
	// seeds: encodings of the hostile shapes (negative deltas, block jumps, 5-byte varints, huge strings, swaps)
	f.Add([]byte{0, 3, 1, 0, 0, 1, 2, 6, 2, 5, 0, 3, 9, 8})
	f.Add([]byte{1, 0x4a, 4, 0xff, 0xff, 3, 'a', 'b', 'c', 6, 0x0a, 0, 0, 0, 2, 'z', 'z'})
	f.Add([]byte{2, 0xca, 5, 0x01, 0xff, 9, 0x0b, 7, 0xff, 0xff, 0x43, 1, 0, 0, 1, 2, 3, 4, 9, 9})
	f.Add([]byte{3, 0x45, 9, 0x09, 0x00, 1, 2, 3, 4, 5, 6, 7, 8, 1, 1, 1, 1, 1, 1, 1, 1, 0x05, 6, 3, 0, 9, 9, 9, 9, 9, 9, 9, 9})
	c05TmpDir = os.TempDir()
	f15 := KFActive("f15-difflen-merge-reorder")
	f.Fuzz(func(t *testing.T, data []byte) {
		ops, variant := decodeFuzzOps(data)
		if len(ops) == 0 {
			return
		}
		if f15 && f15Trigger(ops) {
			ops = neutraliseF15(ops)
		}
		if err := checkC05(ops, variant, c05Cheap); err != nil {
			t.Fatalf("C05 violated: %v\nops: %s", err, opsString(ops))
		}
	})
}
