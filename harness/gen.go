package harness

import (
	"fmt"
	"math"
	"strings"

	"pgregory.net/rapid"
)

// ---------------------------------------------------------------------------
// Generators (all randomness comes from rapid draws) — DESIGN.md §2.3
// ---------------------------------------------------------------------------

var capacities = []int{1, 63, 64, 65, 1000, 1024, 16384, 16385, 40000}

// enumAlphabet includes a pair of strings whose xxh3 hashes agree in the low 32
// bits ("e14884"/"e28738"; found by hashing e0,e1,...).
var enumAlphabet = []string{"", "a", "b", "c", "e14884", "e28738", "with\x00nul", "caf\xc3\xa9", "\xff\xfe", strings.Repeat("x", 300)}

var keyAlphabet = []string{"k0", "k1", "k2", "k3", "k4", "", "k", "k10"} // incl. the empty key and keys that are prefixes of other keys

func genBits(t *rapid.T, k Kind, label string) uint64 {
	if k.Float() {
		var edges []uint64
		if k == KFloat32 {
			for _, f := range []float32{0, float32(math.Copysign(0, -1)), 1, -1, 1.5, math.MaxFloat32, math.SmallestNonzeroFloat32, float32(math.Inf(1)), float32(math.Inf(-1)), 16777216, 0.1} {
				edges = append(edges, uint64(math.Float32bits(f)))
			}
			edges = append(edges, 0x7fc00000, 0x7fc00001, 0xffc12345, 0x7f800001 /* signalling */, 0x00000001, 0x807fffff)
		} else {
			for _, f := range []float64{0, math.Copysign(0, -1), 1, -1, 1.5, math.MaxFloat64, math.SmallestNonzeroFloat64, math.Inf(1), math.Inf(-1), 9007199254740993, 0.1} {
				edges = append(edges, math.Float64bits(f))
			}
			edges = append(edges, 0x7ff8000000000000, 0x7ff8000000000001, 0xfff8000000abcdef, 0x7ff0000000000001 /* signalling */, 1, 0x800fffffffffffff)
		}
		if rapid.IntRange(0, 2).Draw(t, label+"-cls") == 0 {
			return canon(k, rapid.Uint64().Draw(t, label))
		}
		return rapid.SampledFrom(edges).Draw(t, label)
	}
	if k == KBool {
		if rapid.Bool().Draw(t, label) {
			return 1
		}
		return 0
	}
	w := uint(k.Width() * 8)
	edges := []uint64{0, 1, 2, ^uint64(0), ^uint64(0) - 1, 1 << (w - 1), 1<<(w-1) - 1, 1<<(w-1) + 1, 0xff, 0x100, 0x7f, 0x80, 0xffff, 0x10000, 1<<32 - 1, 1 << 32, 3, 5, 10, 100}
	switch rapid.IntRange(0, 3).Draw(t, label+"-cls") {
	case 0:
		return canon(k, rapid.Uint64().Draw(t, label))
	case 1:
		return canon(k, uint64(rapid.IntRange(-20, 20).Draw(t, label)))
	}
	return canon(k, rapid.SampledFrom(edges).Draw(t, label))
}

func genString(t *rapid.T, label string) string {
	switch rapid.IntRange(0, 39).Draw(t, label+"-cls") {
	case 0, 1, 2:
		return ""
	case 3:
		return "\x00"
	case 4:
		return "a\x00b"
	case 5:
		return "\xff\xfe\xfd"
	case 6:
		return strings.Repeat("L", rapid.SampledFrom([]int{255, 256, 257, 1000}).Draw(t, label+"-len"))
	case 7:
		if rapid.IntRange(0, 3).Draw(t, label+"-huge") == 0 {
			return strings.Repeat("H", rapid.SampledFrom([]int{65534, 65535}).Draw(t, label+"-len"))
		}
		return "h"
	case 8, 9, 10, 11:
		return rapid.SampledFrom([]string{"a", "b", "ab", "abc", "zz"}).Draw(t, label)
	}
	return rapid.StringMatching(`[a-d]{1,6}`).Draw(t, label)
}

func genValue(t *rapid.T, cs ColSpec, label string) Value {
	switch cs.Kind {
	case KString:
		v := genString(t, label)
		if cs.Merge == MSetOrAppend && len(v) > 0 && rapid.Bool().Draw(t, label+"-set") {
			v = "=" + v
		}
		if (cs.Merge == MConcat || cs.Merge == MSetOrAppend) && len(v) > 40 {
			// a concatenating merge must not grow a value beyond the format's 65535-byte limit
			v = v[:40]
		}
		return Value{S: v}
	case KEnum:
		return Value{S: rapid.SampledFrom(enumAlphabet).Draw(t, label)}
	case KKey:
		return Value{S: rapid.SampledFrom(keyAlphabet).Draw(t, label)}
	case KRecord:
		a := uint32(genBits(t, KUint32, label+"-a"))
		b := rapid.SampledFrom([]string{"", "x", "yz", "rec\x00", strings.Repeat("r", 40)}).Draw(t, label+"-b")
		c := uint16(0)
		if rapid.IntRange(0, 2).Draw(t, label+"-has-c") == 0 {
			c = uint16(rapid.IntRange(1, 9).Draw(t, label+"-c"))
		}
		return Value{S: recBytes3(a, b, c)}
	}
	return Value{B: genBits(t, cs.Kind, label)}
}

// SchemaCfg controls schema generation.
type SchemaCfg struct {
	Kinds          []Kind // kinds to draw value columns from (nil = all but key)
	MinCols        int
	MaxCols        int
	Key            int  // 0 never, 1 maybe, 2 always
	Late           bool // allow late columns
	Merges         bool // allow non-default merge functions
	NoLenMerge     bool // never use merge functions that change the length (F15 trigger class)
	Capacities     []int
	EnsureLenMerge bool // in half of the schemas add a string column whose merge function changes the length / returns its delta
}

var allValueKinds = []Kind{KInt, KInt16, KInt32, KInt64, KUint, KUint16, KUint32, KUint64, KFloat32, KFloat64, KBool, KString, KEnum, KRecord}

func genSchema(t *rapid.T, cfg SchemaCfg) *Schema {
	caps := cfg.Capacities
	if caps == nil {
		caps = capacities
	}
	s := &Schema{Capacity: rapid.SampledFrom(caps).Draw(t, "capacity"), Key: -1}
	s.Cols = append(s.Cols, ColSpec{Name: "expire", Kind: KInt64})
	kinds := cfg.Kinds
	if kinds == nil {
		kinds = allValueKinds
	}
	if cfg.MaxCols == 0 {
		cfg.MinCols, cfg.MaxCols = 2, 6
	}
	n := rapid.IntRange(cfg.MinCols, cfg.MaxCols).Draw(t, "ncols")
	for i := 0; i < n; i++ {
		k := rapid.SampledFrom(kinds).Draw(t, "kind")
		cs := ColSpec{Name: fmt.Sprintf("c%d_%s", i, k), Kind: k}
		if cfg.Merges && rapid.IntRange(0, 2).Draw(t, "custom-merge") == 0 {
			switch {
			case k.Numeric():
				cs.Merge = MMulAdd
			case k == KString:
				cs.Merge = rapid.SampledFrom([]MergeKind{MConcat, MMix, MMax, MSetOrAppend}).Draw(t, "smerge")
			case k == KRecord:
				cs.Merge = rapid.SampledFrom([]MergeKind{MRecSum, MRecMix}).Draw(t, "rmerge")
			}
			if cfg.NoLenMerge && mergeChangesLen(k, cs.Merge) {
				if k == KString {
					cs.Merge = MMix
				} else {
					cs.Merge = MRecMix
				}
			}
		}
		if cfg.Late && rapid.IntRange(0, 3).Draw(t, "late") == 0 {
			cs.Late = true
		}
		s.Cols = append(s.Cols, cs)
	}
	if cfg.EnsureLenMerge && rapid.Bool().Draw(t, "ensure-len-merge") {
		s.Cols = append(s.Cols, ColSpec{Name: fmt.Sprintf("c%d_lstring", n), Kind: KString, Merge: rapid.SampledFrom([]MergeKind{MConcat, MMax, MSetOrAppend}).Draw(t, "lmerge")})
	}
	if cfg.Key == 2 || (cfg.Key == 1 && rapid.IntRange(0, 2).Draw(t, "keyed") == 0) {
		s.Key = len(s.Cols)
		s.Cols = append(s.Cols, ColSpec{Name: "pk", Kind: KKey})
	}
	return s
}

// pickLive draws a live row with a bias towards boundary rows (first/last of
// the live set, rows next to 64-bit word and 16K block boundaries) and rows
// touched recently.
func pickLive(t *rapid.T, m *Model, recent []uint32, label string) (uint32, bool) {
	live := m.Live()
	if len(live) == 0 {
		return 0, false
	}
	switch rapid.IntRange(0, 9).Draw(t, label+"-how") {
	case 0:
		return live[0], true
	case 1:
		return live[len(live)-1], true
	case 2, 3:
		// a recently touched row that is still live
		if len(recent) > 0 {
			r := recent[rapid.IntRange(0, len(recent)-1).Draw(t, label+"-recent")]
			if _, ok := m.Rows[r]; ok {
				return r, true
			}
		}
	case 4:
		// first live row at or after a boundary
		b := uint32(rapid.SampledFrom([]int{63, 64, 65, 127, 128, 16383, 16384, 16385, 32767, 32768}).Draw(t, label+"-bound"))
		lo, hi := 0, len(live)
		for lo < hi {
			mid := (lo + hi) / 2
			if live[mid] < b {
				lo = mid + 1
			} else {
				hi = mid
			}
		}
		if lo < len(live) {
			return live[lo], true
		}
		return live[len(live)-1], true
	}
	return live[rapid.IntRange(0, len(live)-1).Draw(t, label)], true
}

// TxnCfg controls transaction generation.
type TxnCfg struct {
	Prop                   string // property the exclusion counters are reported under
	MaxSteps               int
	Rollback               bool // transactions may end in an error
	FailInsert             bool // insert callbacks may fail (swallowed by the body)
	Deletes                bool
	Inserts                bool
	Merges                 bool
	OwnUpdates             bool // stores on rows inserted earlier in the same transaction
	KeyOps                 bool // on keyed schemas: key operations (otherwise only InsertKey for new rows)
	Direct                 bool // single-step transactions may use the collection-level methods
	PropagateInsertFailure bool // known finding f22 (C15/C19): the body propagates the error of its first failing insert
	Peeks                  bool // row callbacks may end with a nested read-only QueryAt of another live row (moves the cursor)
	OnlyCols               []int
	NoStoreOnDel           bool                                             // never store to a row that the same transaction deletes (known finding F11)
	NoOpAfterLenMerge      bool                                             // known finding f15: no later store to a row+column after a length-changing merge in the same transaction
	NoDoubleDelete         bool                                             // never delete one row twice in one transaction
	StringAlphabet         []string                                         // if set, string values are drawn from this alphabet
	SafeValue              func(t *rapid.T, cs ColSpec, label string) Value // if set, replaces the edge-biased value generator
}

func storableCols(m *Model, cfg TxnCfg) []int {
	var cols []int
	if cfg.OnlyCols != nil {
		for _, c := range cfg.OnlyCols {
			if m.ColLive[c] {
				cols = append(cols, c)
			}
		}
		return cols
	}
	for i, cs := range m.Sch.Cols {
		if m.ColLive[i] && cs.Kind != KKey {
			cols = append(cols, i)
		}
	}
	return cols
}

// txnGenCtx carries per-transaction generator state.
type txnGenCtx struct {
	lenMerged map[string]bool // rowKey/col that had a length-changing merge
}

func genStores(t *rapid.T, m *Model, cfg TxnCfg, min, max int, label string) []Store {
	return genStoresCtx(t, m, cfg, min, max, label, nil, "")
}

func genStoresCtx(t *rapid.T, m *Model, cfg TxnCfg, min, max int, label string, ctx *txnGenCtx, rowKey string) []Store {
	cols := storableCols(m, cfg)
	if len(cols) == 0 {
		return nil
	}
	n := rapid.IntRange(min, max).Draw(t, label+"-n")
	out := make([]Store, 0, n)
	for i := 0; i < n; i++ {
		ci := cols[rapid.IntRange(0, len(cols)-1).Draw(t, label+"-col")]
		cs := m.Sch.Cols[ci]
		st := Store{Col: ci}
		canMerge := cfg.Merges && cs.Kind != KBool && cs.Kind != KEnum
		if canMerge && rapid.IntRange(0, 2).Draw(t, label+"-merge") == 0 {
			st.Merge = true
		}
		if cfg.SafeValue != nil {
			st.Val = cfg.SafeValue(t, cs, label+"-safe")
		} else if cs.Kind == KString && cfg.StringAlphabet != nil {
			st.Val = Value{S: rapid.SampledFrom(cfg.StringAlphabet).Draw(t, label+"-sval")}
		} else {
			st.Val = genValue(t, cs, label+"-val")
		}
		st.Via = uint8(rapid.IntRange(0, numVias-1).Draw(t, label+"-via"))
		if ctx != nil {
			key := fmt.Sprintf("%s/%d", rowKey, ci)
			if cfg.NoOpAfterLenMerge && ctx.lenMerged[key] {
				CountExcluded(cfg.Prop, "f15-difflen-merge-reorder")
				continue
			}
			if st.Merge && mergeChangesLen(cs.Kind, cs.Merge) {
				ctx.lenMerged[key] = true
			}
		}
		out = append(out, st)
	}
	return out
}

// genTxn draws a transaction over the model's current state.
func genTxn(t *rapid.T, m *Model, recent []uint32, cfg TxnCfg) TxnSpec {
	if cfg.MaxSteps == 0 {
		cfg.MaxSteps = 12
	}
	n := rapid.IntRange(1, cfg.MaxSteps).Draw(t, "nsteps")
	if cfg.Peeks && rapid.IntRange(0, 15).Draw(t, "empty-body") == 0 {
		n = 0 // a transaction that does nothing (or only reads through accessors, see Touch): no effect, nothing emitted
	}
	spec := TxnSpec{FailAt: -1}
	keyed := m.Sch.Key >= 0
	var inserts []int // indexes of successful insert steps (for own updates)
	deleting := map[uint32]bool{}
	stored := map[uint32]bool{}
	creating := map[string]bool{}  // keys that a creating operation of this txn uses
	failedCreate := map[int]bool{} // steps whose failing callback belongs to an insert (a row that is not created)
	ctx := &txnGenCtx{lenMerged: map[string]bool{}}
	rk := func(row uint32) string { return fmt.Sprintf("r%d", row) }
	ik := func(step int) string { return fmt.Sprintf("i%d", step) }
	for i := 0; i < n; i++ {
		// choose the step kind
		type choice struct {
			k StepKind
			w int
		}
		var choices []choice
		if len(m.Rows) > 0 {
			choices = append(choices, choice{SUpdate, 6})
			if cfg.Deletes {
				choices = append(choices, choice{SDelete, 2})
			}
		}
		if cfg.Inserts {
			if keyed {
				choices = append(choices, choice{SInsertKey, 3})
			} else {
				choices = append(choices, choice{SInsert, 3})
			}
		}
		if keyed && cfg.KeyOps {
			choices = append(choices, choice{SUpsertKey, 3}, choice{SQueryKey, 2}, choice{SDeleteKey, 1})
			if len(m.Rows) > 0 {
				choices = append(choices, choice{SSetKey, 1})
			}
		}
		if cfg.OwnUpdates && len(inserts) > 0 {
			choices = append(choices, choice{SOwnUpdate, 1})
		}
		if len(choices) == 0 {
			break
		}
		total := 0
		for _, c := range choices {
			total += c.w
		}
		pick := rapid.IntRange(0, total-1).Draw(t, "step-kind")
		var kind StepKind
		for _, c := range choices {
			if pick < c.w {
				kind = c.k
				break
			}
			pick -= c.w
		}
		st := Step{Kind: kind}
		switch kind {
		case SUpdate:
			row, _ := pickLive(t, m, recent, "row")
			if cfg.NoStoreOnDel && deleting[row] {
				CountExcluded(cfg.Prop, "f11-store-and-delete-same-txn")
				continue
			}
			st.Row = row
			st.Stores = genStoresCtx(t, m, cfg, 1, 4, "st", ctx, rk(row))
			stored[row] = true
		case SDelete:
			row, _ := pickLive(t, m, recent, "row")
			if cfg.NoStoreOnDel && stored[row] {
				CountExcluded(cfg.Prop, "f11-store-and-delete-same-txn")
				continue
			}
			if cfg.NoDoubleDelete && deleting[row] {
				CountExcluded(cfg.Prop, "f24-double-delete-double-trigger")
				continue
			}
			st.Row = row
			deleting[row] = true
		case SInsert:
			st.Stores = genStoresCtx(t, m, cfg, 0, 4, "ins", ctx, ik(len(spec.Steps)))
			if cfg.FailInsert && rapid.IntRange(0, 5).Draw(t, "ins-fail") == 0 {
				st.Fail = true
				failedCreate[len(spec.Steps)] = true
			} else {
				inserts = append(inserts, len(spec.Steps))
			}
		case SInsertKey, SUpsertKey:
			st.Key = rapid.SampledFrom(keyAlphabet).Draw(t, "key")
			if !cfg.KeyOps {
				// plain histories on keyed schemas: always a fresh key
				st.Key = fmt.Sprintf("u%d_%d", len(m.Rows), rapid.IntRange(0, 1<<30).Draw(t, "fresh-key"))
			}
			at0, exists0 := m.KeyOf(st.Key)
			rowKey := ik(len(spec.Steps))
			if exists0 {
				rowKey = rk(at0)
			}
			st.Stores = genStoresCtx(t, m, cfg, 0, 3, "ins", ctx, rowKey)
			_, exists := m.KeyOf(st.Key)
			if !exists {
				if creating[st.Key] {
					// second creating operation for one key in one transaction: known finding F17
					if KFActive("f17-double-create-same-key") {
						CountExcluded(cfg.Prop, "f17-double-create-same-key")
						continue
					}
				}
				creating[st.Key] = true
				if cfg.FailInsert && rapid.IntRange(0, 5).Draw(t, "ins-fail") == 0 {
					st.Fail = true
					failedCreate[len(spec.Steps)] = true
				} else {
					inserts = append(inserts, len(spec.Steps))
					if cfg.KeyOps && kind == SInsertKey && rapid.IntRange(0, 5).Draw(t, "also-key") == 0 {
						// the callback re-keys the new row before InsertKey queues its own key
						k2 := rapid.SampledFrom(keyAlphabet).Draw(t, "also-key-name")
						if _, taken := m.KeyOf(k2); !taken && !creating[k2] && k2 != st.Key {
							st.AlsoKey = k2
							creating[k2] = true
						}
					}
				}
			} else if kind == SUpsertKey {
				at, _ := m.KeyOf(st.Key)
				if cfg.NoStoreOnDel && deleting[at] {
					CountExcluded(cfg.Prop, "f11-store-and-delete-same-txn")
					continue
				}
				stored[at] = true
			}
		case SQueryKey:
			st.Key = rapid.SampledFrom(keyAlphabet).Draw(t, "key")
			if at, ok := m.KeyOf(st.Key); ok {
				st.Stores = genStoresCtx(t, m, cfg, 0, 3, "q", ctx, rk(at))
			} else {
				st.Stores = genStoresCtx(t, m, cfg, 0, 3, "q", ctx, "none")
			}
			if at, ok := m.KeyOf(st.Key); ok {
				if cfg.NoStoreOnDel && deleting[at] {
					CountExcluded(cfg.Prop, "f11-store-and-delete-same-txn")
					continue
				}
				stored[at] = true
			}
		case SDeleteKey:
			st.Key = rapid.SampledFrom(keyAlphabet).Draw(t, "key")
			if at, ok := m.KeyOf(st.Key); ok {
				if cfg.NoStoreOnDel && stored[at] {
					CountExcluded(cfg.Prop, "f11-store-and-delete-same-txn")
					continue
				}
				if cfg.NoDoubleDelete && deleting[at] {
					CountExcluded(cfg.Prop, "f24-double-delete-double-trigger")
					continue
				}
				deleting[at] = true
			}
		case SSetKey:
			row, _ := pickLive(t, m, recent, "row")
			st.Row = row
			st.Key = rapid.SampledFrom(keyAlphabet).Draw(t, "key")
			if _, exists := m.KeyOf(st.Key); !exists {
				if creating[st.Key] && KFActive("f17-double-create-same-key") {
					CountExcluded(cfg.Prop, "f17-double-create-same-key")
					continue
				}
				if cfg.NoStoreOnDel && deleting[row] {
					CountExcluded(cfg.Prop, "f11-store-and-delete-same-txn")
					continue
				}
				creating[st.Key] = true
				stored[row] = true
			}
		case SOwnUpdate:
			st.Row = uint32(inserts[rapid.IntRange(0, len(inserts)-1).Draw(t, "own")])
			st.Stores = genStoresCtx(t, m, cfg, 1, 3, "own-st", ctx, ik(int(st.Row)))
		}
		// the callback of an operation on an EXISTING row may fail as well (after it has issued its stores; the
		// body swallows the error): the call reports the error, the stores stay buffered and are committed
		if cfg.FailInsert && !st.Fail && !failedCreate[len(spec.Steps)] {
			existing := kind == SUpdate
			if kind == SUpsertKey || kind == SQueryKey {
				_, existing = m.KeyOf(st.Key)
				if kind == SUpsertKey && creating[st.Key] {
					existing = false
				}
			}
			if existing && rapid.IntRange(0, 7).Draw(t, "callback-fails") == 0 {
				st.Fail = true
			}
		}
		switch kind {
		case SUpdate, SInsert, SInsertKey, SUpsertKey, SQueryKey, SOwnUpdate:
			if cfg.Peeks && len(m.Rows) > 0 && rapid.IntRange(0, 5).Draw(t, "peek") == 0 {
				st.Peek, st.HasPeek = pickLive(t, m, recent, "peek-row")
			}
		}
		spec.Steps = append(spec.Steps, st)
	}
	if len(spec.Steps) == 0 {
		// always possible: an update of nothing is not; fall back to an insert or a no-op delete
		if cfg.Inserts && !keyed {
			spec.Steps = append(spec.Steps, Step{Kind: SInsert})
		} else {
			spec.Steps = append(spec.Steps, Step{Kind: SDelete, Row: 0xfffff})
		}
	}
	if cfg.Rollback && rapid.IntRange(0, 3).Draw(t, "rollback") == 0 {
		spec.FailAt = rapid.IntRange(0, len(spec.Steps)-1).Draw(t, "fail-at")
		inserted := false
		for _, st := range spec.Steps[:spec.FailAt+1] {
			if st.Kind == SInsert || st.Kind == SInsertKey || st.Kind == SUpsertKey {
				inserted = true
			}
		}
		if !inserted && rapid.IntRange(0, 2).Draw(t, "body-panics") == 0 {
			spec.Panic = true
		}
	}
	if cfg.FailInsert && cfg.PropagateInsertFailure && KFActive("f22-swallowed-insert-failure") {
		// known finding: a failing insert whose error is swallowed by a committing body.
		// Excluded by construction: the body propagates the error of the first failing insert.
		for i, st := range spec.Steps {
			if st.Fail && failedCreate[i] && (spec.FailAt < 0 || spec.FailAt > i) {
				CountExcluded(cfg.Prop, "f22-swallowed-insert-failure")
				spec.FailAt = i
				break
			}
		}
	}
	// the body may start by narrowing its selection (filter first, then point and key operations)
	if cfg.Peeks && len(spec.Steps) > 0 && rapid.IntRange(0, 5).Draw(t, "prefilter") == 0 {
		ok := true
		for _, st := range spec.Steps {
			if st.Kind == SDelete {
				ok = false
			}
		}
		ci := rapid.IntRange(0, len(m.Sch.Cols)-1).Draw(t, "prefilter-col")
		if ok && m.ColLive[ci] && m.Sch.Cols[ci].Kind != KKey {
			spec.Prefilter = ci + 1
		}
	}
	// the body may end by obtaining typed column accessors that it only reads (txn.Int64("limit").Get()):
	// an accessor allocates the transaction's buffer for that column, which then stays empty
	if cfg.Peeks && spec.FailAt < 0 && rapid.IntRange(0, 3).Draw(t, "tail-accessors") == 0 {
		for i := rapid.IntRange(1, 2).Draw(t, "tail-accessors-n"); i > 0; i-- {
			ci := rapid.IntRange(0, len(m.Sch.Cols)-1).Draw(t, "tail-accessor-col")
			if m.ColLive[ci] && m.Sch.Cols[ci].Kind != KKey {
				spec.Touch = append(spec.Touch, ci)
			}
		}
	}
	return spec
}
