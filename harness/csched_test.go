package harness

import (
	"fmt"
	"os"
	"strings"
	"testing"

	"github.com/kelindar/column"
	"pgregory.net/rapid"
)

// ---------------------------------------------------------------------------
// Controlled-schedule checks for concurrent writers: C06 (replica converges),
// C09 (merges never lost), C15 (stream exactly-once / ordered / identifiable).
// The same executions feed all three oracles; VERIF_PROP selects which
// property a run decides (the other oracles are not judged in that run).
// ---------------------------------------------------------------------------

func schedProp() string {
	if p := os.Getenv("VERIF_PROP"); p != "" {
		return p
	}
	return "C06"
}

type schedFailure struct {
	Prop string
	Msg  string
}

// checkWriterRun evaluates all oracles on a finished run. It returns failures
// per property and per-property non-triviality.
func checkWriterRun(r *concRun) (fails []schedFailure, nt map[string]bool, labels []string) {
	nt = map[string]bool{}
	add := func(prop, format string, args ...any) {
		fails = append(fails, schedFailure{prop, fmt.Sprintf(format, args...)})
	}
	if r.BodyErr != "" {
		add("C02", "%s", r.BodyErr)
	}
	recs := r.Log.Since(r.N0)
	// C15: IDs
	sc := newStreamChecker()
	for _, rc := range recs {
		if err := sc.add(rc); err != nil {
			add("C15", "%v", err)
			break
		}
	}
	refs, bad := r.attribute()
	if bad != "" {
		add("C15", "%s", bad)
		return
	}
	// model: fold the transaction parts in the order the commits were applied (= record order)
	m := r.P.Init.M.Clone()
	lastOnBlock := map[uint32]int{} // block -> task of the previous commit on it
	for i, rc := range recs {
		ref := refs[i]
		spec, res := r.P.Tasks[ref.Task][ref.Txn], r.Res[ref.Task][ref.Txn]
		if err := applyPart(m, spec, res, ref.Block); err != nil {
			add("C11", "%v", err)
		}
		if prev, ok := lastOnBlock[ref.Block]; ok && prev != ref.Task {
			// two tasks' commits adjacent on one block
			labels = append(labels, "adjacent-commits-of-two-tasks")
			hasMerge := func(t, k int) map[uint32]bool {
				out := map[uint32]bool{}
				for _, st := range r.P.Tasks[t][k].Steps {
					for _, s := range st.Stores {
						if s.Merge && st.Kind == SUpdate {
							out[st.Row] = true
						}
					}
				}
				return out
			}
			a := hasMerge(ref.Task, ref.Txn)
			for j := i - 1; j >= 0; j-- {
				if refs[j].Block == ref.Block {
					for row := range hasMerge(refs[j].Task, refs[j].Txn) {
						if a[row] && row>>14 == ref.Block {
							nt["C09"] = true
						}
					}
					break
				}
			}
		}
		lastOnBlock[ref.Block] = ref.Task
		// C09: the values carried by the emitted commit are the successive folds (absolute, as puts)
		final := map[string]decodedOp{}
		for _, op := range decodeCommitOps(rc) {
			if op.Col == "a" || op.Col == "m" || op.Col == "s" || op.Col == "x" {
				if op.Type == commitMerge {
					add("C09", "commit #%d (block %d, task %d) carries a merge DELTA for column %s row %d instead of the merged value", rc.Seq, rc.Chunk, rc.Task, op.Col, op.Off)
				}
				if op.Type == commitPut {
					final[fmt.Sprintf("%s@%d", op.Col, op.Off)] = op
				}
			}
		}
		for _, op := range final {
			if op.Off>>14 != uint32(rc.Chunk) {
				continue
			}
			row, live := m.Rows[op.Off]
			if !live {
				continue
			}
			ci := r.P.Init.Sch.col(op.Col)
			want := row[ci]
			isStr := op.Col == "s" || op.Col == "x"
			ok := want.Has && ((isStr && want.V.S == op.Str) || (!isStr && int64(want.V.B) == op.Int))
			if !ok {
				add("C09", "commit #%d (block %d, task %d) carries %s=%v for row %d; folding the committed deltas in apply order gives %s", rc.Seq, rc.Chunk, rc.Task, op.Col,
					map[bool]any{true: op.Str, false: op.Int}[isStr], op.Off, renderCell(r.P.Init.Sch.Cols[ci].Kind, want))
			}
		}
	}
	// final state of the primary == fold (C09; also the base of C06)
	live := make([]bool, len(r.P.Init.Sch.Cols))
	for i := range live {
		live[i] = true
	}
	got, _, err := extractRange(r.C, r.P.Init.Sch, live, false)
	if err != nil {
		add("C09", "reading the primary: %v", err)
	} else if d := m.diffStates(got, "primary after all writers finished vs. deltas folded in apply order"); d != "" {
		add("C09", "%s", d)
		// a committed transaction applies every change it buffered, and only those (C02); rows of
		// finished inserts keep their values (C11)
		add("C02", "%s", d)
		add("C11", "%s", d)
	}
	if r.C.Count() != m.Count() {
		add("C11", "Count()=%d, %d rows are live after all writers finished", r.C.Count(), m.Count())
	}
	// C06: a replica that replays the recorded stream in emission order equals the primary
	sch := *r.P.Init.Sch
	replica := newCollection(&sch, column.Options{})
	defer replica.Close()
	all := r.Log.Since(0)
	for _, rc := range all {
		cl := rc.Clone.Clone()
		cl.ID = rc.ID
		if err := replica.Replay(cl); err != nil {
			add("C06", "Replay of commit #%d failed: %v", rc.Seq, err)
		}
	}
	rgot, _, rerr := extractRange(replica, r.P.Init.Sch, live, false)
	if rerr != nil {
		add("C06", "reading the replica: %v", rerr)
	} else if err == nil {
		prim := &Model{Sch: r.P.Init.Sch, Rows: got, ColLive: live}
		if d := prim.diffStates(rgot, "replica (stream replayed in emission order) vs. primary"); d != "" {
			add("C06", "%s", d)
		}
		if replica.Count() != r.C.Count() {
			add("C06", "replica Count()=%d, primary Count()=%d", replica.Count(), r.C.Count())
		}
	}
	// non-triviality
	multi := false
	for ti, txns := range r.P.Tasks {
		for k, spec := range txns {
			if r.Res[ti][k] != nil && len(txnBlocks(spec, r.Res[ti][k])) > 1 {
				multi = true
			}
		}
	}
	// interleaved: two tasks' commits on one block with another block's commit of the same tasks in between
	interleaved := false
	for i := range refs {
		for j := i + 1; j < len(refs); j++ {
			if refs[j].Block == refs[i].Block && refs[j].Task != refs[i].Task {
				for k := i + 1; k < j; k++ {
					if refs[k].Block != refs[i].Block && (refs[k].Task == refs[i].Task || refs[k].Task == refs[j].Task) {
						interleaved = true
					}
				}
			}
		}
	}
	if multi {
		labels = append(labels, "multi-block-txn")
	}
	if interleaved {
		labels = append(labels, "interleaved-blocks")
	}
	nt["C06"] = multi && interleaved
	nt["C02"] = len(recs) >= 2
	nt["C11"] = len(recs) >= 2
	// C15: both pre-latch points on one block passed before either latched
	pre := map[string]int{}
	for _, e := range r.S.Trace {
		key := fmt.Sprintf("%d", e.Block)
		switch e.Point {
		case "commit:pre-latch":
			pre[key]++
			if pre[key] >= 2 {
				nt["C15"] = true
				labels = append(labels, "two-tasks-past-pre-latch-on-one-block")
			}
		case "commit:post-latch":
			pre[key]--
		}
	}
	if multi {
		nt["C15"] = true
	}
	return
}

const (
	commitPut   = 2
	commitMerge = 3
)

func reportSchedRun(t interface{ Fatalf(string, ...any) }, prop string, r *concRun, fails []schedFailure, decisions []int) {
	if !r.ok {
		why := r.S.Hang + r.S.Panic
		// a hang or panic under a serialized schedule is judged by every property (and is C18's deadlock clause)
		path := writeReplay(prop, "TestSchedReplay", map[string]any{"program": r.P.String(), "decisions": decisions, "why": why, "trace": r.S.TraceString()})
		t.Fatalf("%s violated: %s\nprogram:\n%s\ntrace: %s\nreplay: %s", prop, why, r.P, r.S.TraceString(), path)
	}
	for _, f := range fails {
		if f.Prop == prop {
			t.Fatalf("%s violated: %s\nprogram:\n%s\ntrace: %s\ndecisions: %v", prop, f.Msg, r.P, r.S.TraceString(), decisions)
		}
	}
}

func dedupe(labels []string) []string {
	seen := map[string]bool{}
	var out []string
	for _, l := range labels {
		if !seen[l] {
			seen[l] = true
			out = append(out, l)
		}
	}
	return out
}

// TestSchedWriters: random programs, random schedules (all drawn by rapid).
func TestSchedWriters(t *testing.T) {
	prop := schedProp()
	rapid.Check(t, func(t *rapid.T) {
		tasks := rapid.IntRange(2, 4).Draw(t, "tasks")
		blocks := rapid.IntRange(1, 3).Draw(t, "blocks")
		init := buildConcInit(blocks, 4)
		cfg := concGenCfg{Tasks: tasks, MaxTxns: 2, Deletes: true, Inserts: rapid.Bool().Draw(t, "inserts"), Puts: true, Aborts: true}
		if rapid.IntRange(0, 3).Draw(t, "dense-layout") == 0 {
			// full first block: inserts land right behind rows that tasks delete (allocator under in-flight deletes)
			init = buildConcInitDense(4)
			cfg.Inserts = true
		}
		p := genConcProgram(t, init, cfg)
		r := startConcRun(p, rapid.SampledFrom([]int{1, 1024, 16385}).Draw(t, "capacity"))
		defer r.Close()
		var decisions []int
		r.S.Pick = func(runnable []int, last int) int {
			// bias towards continuing the same task (fewer preemptions), else draw
			d := rapid.IntRange(0, len(runnable)-1).Draw(t, "sched")
			decisions = append(decisions, d)
			return d
		}
		r.ok = r.S.Run()
		var fails []schedFailure
		nt := map[string]bool{}
		var labels []string
		if r.ok {
			fails, nt, labels = checkWriterRun(r)
		}
		reportSchedRun(t, prop, r, fails, decisions)
		RecordCase(prop, p.String()+"schedule: "+r.S.TraceString(), nt[prop], dedupe(append(labels, "random-schedule"))...)
	})
}

// fixed configurations for bounded-exhaustive enumeration
func fixedPrograms() map[string]*concProgram {
	up := func(row uint32, stores ...Store) Step { return Step{Kind: SUpdate, Row: row, Stores: stores} }
	mA := func(d int64) Store { return Store{Col: ccA, Merge: true, Val: Value{B: uint64(d)}} }
	mM := func(d int64) Store { return Store{Col: ccM, Merge: true, Val: Value{B: uint64(d)}} }
	mS := func(s string) Store { return Store{Col: ccS, Merge: true, Val: Value{S: s}} }
	pA := func(v int64) Store { return Store{Col: ccA, Val: Value{B: uint64(v)}} }
	tx := func(steps ...Step) TxnSpec { return TxnSpec{Steps: steps, FailAt: -1} }
	noY := func(p *concProgram) *concProgram {
		for _, txns := range p.Tasks {
			var ys [][]bool
			for _, tx := range txns {
				ys = append(ys, make([]bool, len(tx.Steps)))
			}
			p.Yield = append(p.Yield, ys)
		}
		return p
	}
	two := buildConcInit(2, 4)
	one := buildConcInit(1, 4)
	const b1 = 16384
	return map[string]*concProgram{
		// 2 writers, each one transaction spanning both blocks, merging into the same rows
		"2 writers x 2 blocks each": noY(&concProgram{Init: two, Tasks: [][]TxnSpec{
			{tx(up(0, mA(1), mM(1)), up(b1, mA(10), mM(2), mS("x1")))},
			{tx(up(0, mA(100), mM(3)), up(b1, mA(1000), mM(4), mS("y2")))},
		}}),
		// 3 writers on one block
		"3 writers x 1 block": noY(&concProgram{Init: one, Tasks: [][]TxnSpec{
			{tx(up(0, mA(1), mM(1)))},
			{tx(up(0, mM(2), pA(50)))},
			{tx(up(0, mA(7), mS("zz")), up(63, mA(1)))},
		}}),
		// 2 writers, two transactions each, crossing blocks in opposite orders of work
		"2 writers x 2 txns, mixed blocks": noY(&concProgram{Init: two, Tasks: [][]TxnSpec{
			{tx(up(1, mA(1))), tx(up(b1+1, mM(5)), up(1, mM(1)))},
			{tx(up(b1+1, mA(2)), up(1, mA(20))), tx(up(1, mM(9)))},
		}}),
		// a multi-block writer racing with single-block writers on each of its blocks
		"1 two-block writer + 2 single-block writers": noY(&concProgram{Init: two, Tasks: [][]TxnSpec{
			{tx(up(0, mM(1)), up(b1, mM(1)))},
			{tx(up(0, mM(2), Store{Col: ccT, Val: Value{B: 7}}))},
			{tx(up(b1, mM(3)), Step{Kind: SInsert, Stores: []Store{{Col: ccT, Val: Value{B: 9}}}})},
		}}),
	}
}

// TestSchedWritersExhaustive enumerates every interleaving of the fixed
// configurations at the commit-protocol yield points.
func TestSchedWritersExhaustive(t *testing.T) {
	prop := schedProp()
	limit := envInt("VERIF_SCHED_LIMIT", 6000)
	for name, p := range fixedPrograms() {
		enum := &dfsEnum{}
		n, ntCount := 0, 0
		complete := true
		for {
			enum.pos = 0
			r := startConcRun(p, 1024)
			r.S.Pick = enum.pick
			r.ok = r.S.Run()
			var fails []schedFailure
			nt := map[string]bool{}
			var labels []string
			if r.ok {
				fails, nt, labels = checkWriterRun(r)
			}
			reportSchedRun(t, prop, r, fails, enum.decisions())
			RecordCase(prop, name+" | schedule: "+r.S.TraceString(), nt[prop], dedupe(append(labels, "exhaustive:"+name))...)
			if nt[prop] {
				ntCount++
			}
			r.Close()
			n++
			if !enum.next() {
				break
			}
			if n >= limit {
				complete = false
				break
			}
		}
		SetExhaustive(prop, fmt.Sprintf("all interleavings at commit:pre-latch/post-latch of the fixed configuration %q", name), complete)
		AddCounter(prop, "exhaustive_schedules:"+strings.ReplaceAll(name, " ", "_"), int64(n))
		t.Logf("%s: %q: %d schedules (complete=%v), %d non-trivial", prop, name, n, complete, ntCount)
	}
}

// TestSchedReplay documents saved hang/panic schedules (JSON replay).
func TestSchedReplay(t *testing.T) {
	var rp struct {
		Program string `json:"program"`
		Why     string `json:"why"`
		Trace   string `json:"trace"`
	}
	if !loadReplay(t, &rp) {
		t.Skip("no replay file")
	}
	t.Fatalf("saved schedule failure: %s\nprogram:\n%s\ntrace: %s\n(re-run the generating test with the same VERIF_SEED to reproduce deterministically)", rp.Why, rp.Program, rp.Trace)
}
