package harness

import (
	"fmt"
	"runtime"
	"sync"
	"testing"
	"time"

	"github.com/kelindar/column"
	"pgregory.net/rapid"
)

// ---------------------------------------------------------------------------
// C09 — concurrent merges are never lost: free-parallel part (commutative
// merges of every numeric kind, real parallelism, readers/snapshots mixed in).
// The controlled-schedule part is TestSchedWriters* with VERIF_PROP=C09.
// ---------------------------------------------------------------------------

func TestC09Parallel(t *testing.T) {
	numeric := []Kind{KInt, KInt16, KInt32, KInt64, KUint, KUint16, KUint32, KUint64, KFloat32, KFloat64}
	rapid.Check(t, func(t *rapid.T) {
		workers := rapid.IntRange(2, 16).Draw(t, "workers")
		txns := rapid.IntRange(20, 200).Draw(t, "txns")
		blocks := rapid.IntRange(1, 2).Draw(t, "blocks")
		withReaders := rapid.Bool().Draw(t, "readers")
		sch := &Schema{Capacity: 1024, Key: -1, Cols: []ColSpec{{Name: "expire", Kind: KInt64}}}
		for _, k := range numeric {
			sch.Cols = append(sch.Cols, ColSpec{Name: "c_" + k.String(), Kind: k})
		}
		recCol := len(sch.Cols)
		sch.Cols = append(sch.Cols, ColSpec{Name: "c_rec", Kind: KRecord, Merge: MRecAddInPlace})
		recYield.Store(true)
		defer recYield.Store(false)
		c := newCollection(sch, column.Options{})
		defer c.Close()
		// rows: a few in each block
		n := (blocks-1)*16384 + 8
		c.Query(func(txn *column.Txn) error {
			for i := 0; i < n; i++ {
				txn.Insert(func(r column.Row) error { return nil })
			}
			return nil
		})
		rows := []uint32{0, 1, 7}
		if blocks == 2 {
			rows = append(rows, 16384, 16391)
		}
		// every contended row has a deadline an hour away: txn.TTL().Extend is a merge as well
		deadline0 := map[uint32]int64{}
		for _, row := range rows {
			c.QueryAt(row, func(r column.Row) error { r.SetTTL(time.Hour); return nil })
			c.QueryAt(row, func(r column.Row) error { deadline0[row], _ = r.Int64("expire"); return nil })
		}
		// per worker, per txn: row, column, delta (small integers: float sums stay exact)
		type op struct {
			Row   uint32
			Col   int
			Delta int
			Abort bool // the transaction merges and then returns an error: its delta must not count
		}
		progs := make([][]op, workers)
		total := map[[2]int]int64{}
		for w := range progs {
			for i := 0; i < txns; i++ {
				o := op{Row: rows[rapid.IntRange(0, len(rows)-1).Draw(t, "row")], Col: max(0, rapid.IntRange(-1, len(numeric)+1).Draw(t, "col")), Delta: rapid.IntRange(1, 5).Draw(t, "delta")}
				o.Abort = rapid.IntRange(0, 9).Draw(t, "abort") == 0
				progs[w] = append(progs[w], o)
				if !o.Abort {
					total[[2]int{int(o.Row), o.Col}] += int64(o.Delta)
				}
			}
		}
		var wg sync.WaitGroup
		stop := make(chan struct{})
		var rerr string
		var rmu sync.Mutex
		if withReaders {
			wg.Add(1)
			go func() {
				defer wg.Done()
				for {
					select {
					case <-stop:
						return
					default:
					}
					c.Query(func(txn *column.Txn) error {
						rd := txn.Int64("c_int64")
						prev := map[uint32]int64{}
						return txn.Range(func(idx uint32) {
							if v, ok := rd.Get(); ok {
								if v < prev[idx] {
									rmu.Lock()
									rerr = fmt.Sprintf("reader saw row %d c_int64 go down to %d", idx, v)
									rmu.Unlock()
								}
								prev[idx] = v
							}
						})
					})
				}
			}()
		}
		var wwg sync.WaitGroup
		crash := ""
		for w := 0; w < workers; w++ {
			wwg.Add(1)
			go func(w int) {
				defer wwg.Done()
				defer func() {
					if p := recover(); p != nil {
						buf := make([]byte, 1<<12)
						buf = buf[:runtime.Stack(buf, false)]
						rmu.Lock()
						if crash == "" {
							crash = fmt.Sprintf("a merging transaction panicked: %v\n%s", p, trimStack(string(buf)))
						}
						rmu.Unlock()
					}
				}()
				for _, o := range progs[w] {
					if o.Col == 0 {
						// the time-to-live accessor: Extend merges a duration into the deadline
						c.Query(func(txn *column.Txn) error {
							return txn.QueryAt(o.Row, func(column.Row) error {
								txn.TTL().Extend(time.Duration(o.Delta) * time.Minute)
								if o.Abort {
									return errRollback
								}
								return nil
							})
						})
						continue
					}
					c.QueryAt(o.Row, func(r column.Row) error {
						cs := sch.Cols[o.Col]
						var v Value
						if o.Abort {
							defer func() {}()
						}
						switch cs.Kind {
						case KRecord:
							v = Value{S: recBytes(uint32(o.Delta), "")}
						case KFloat32:
							v = Value{B: uint64(float32ToBits(float32(o.Delta)))}
						case KFloat64:
							v = Value{B: float64ToBits(float64(o.Delta))}
						default:
							v = Value{B: uint64(o.Delta)}
						}
						writeStore(nil, r, cs, Store{Col: o.Col, Merge: true, Val: v, Via: ViaRow})
						if o.Abort {
							return errRollback
						}
						return nil
					})
				}
			}(w)
		}
		finished := make(chan struct{})
		go func() { wwg.Wait(); close(finished) }()
		select {
		case <-finished:
		case <-after(60 * time.Second):
			rmu.Lock()
			msg := crash
			rmu.Unlock()
			t.Fatalf("C09 violated (free-parallel run): the merging workers did not finish within 60 s (deadlock, or a worker died holding a latch) %s", msg)
		}
		close(stop)
		wg.Wait()
		if crash != "" {
			t.Fatalf("C09 violated (free-parallel run): %s", crash)
		}
		if rerr != "" {
			t.Fatalf("C09 violated (free-parallel run): %s", rerr)
		}
		live := make([]bool, len(sch.Cols))
		for i := range live {
			live[i] = true
		}
		contended := 0
		for key, sum := range total {
			row, col := uint32(key[0]), key[1]
			got, err := readRowAt(c, sch, live, row, ReadRowTyped)
			if err != nil {
				t.Fatalf("reading row %d: %v", row, err)
			}
			cs := sch.Cols[col]
			if col == 0 {
				want := deadline0[row] + sum*int64(time.Minute)
				if !got[0].Has || int64(got[0].V.B) != want {
					t.Fatalf("C09 violated (free-parallel run): row %d: %d workers extended its time-to-live by %d minute(s) in total with txn.TTL().Extend; the deadline moved by %s (an extension was lost or applied twice)",
						row, workers, sum, time.Duration(int64(got[0].V.B)-deadline0[row]))
				}
				contended++
				continue
			}
			if col == recCol {
				wantRec := recBytes(uint32(sum), "")
				if !got[col].Has || got[col].V.S != wantRec {
					t.Fatalf("C09 violated (free-parallel run): row %d record column = %s after %d workers merged deltas summing to %d with an in-place merge function (want A=%d): a merge was lost, applied twice or computed from another row's record",
						row, renderCell(KRecord, got[col]), workers, sum, sum)
				}
				contended++
				continue
			}
			var want uint64
			switch cs.Kind {
			case KFloat32:
				want = uint64(float32ToBits(float32(sum)))
			case KFloat64:
				want = float64ToBits(float64(sum))
			default:
				want = canon(cs.Kind, uint64(sum))
			}
			if !got[col].Has || got[col].V.B != want {
				t.Fatalf("C09 violated (free-parallel run): row %d column %s = %s after %d workers merged deltas summing to %d (want %s): a merge was lost or applied twice",
					row, cs.Name, renderCell(cs.Kind, got[col]), workers, sum, Value{B: want}.render(cs.Kind))
			}
			contended++
		}
		RecordCase("C09", fmt.Sprintf("free-parallel workers=%d txns=%d blocks=%d readers=%v cells=%d", workers, txns, blocks, withReaders, contended), workers >= 2 && contended > 0, "free-parallel")
	})
}
