package harness

import (
	"sync"

	"github.com/kelindar/column/commit"
)

// recCommit is one commit as the logger received it.
type recCommit struct {
	ID    uint64
	Chunk commit.Chunk
	Clone commit.Commit // deep copy of the buffers (Commit.Clone)
	Task  int           // scheduler task that was running (-1 outside the scheduler)
	Seq   int
}

// recLogger is a commit.Logger that records every commit it is handed.
type recLogger struct {
	mu       sync.Mutex
	commits  []recCommit
	who      func() int // optional: identifies the running task
	onAppend func()     // optional: called (under the block latch) for every commit
	// failSeq: optional; the commit with this sequence number is recorded and then REFUSED (Append
	// returns an error). A logger may fail; the collection must keep offering it every later commit.
	failSeq func(seq int) error
}

func (l *recLogger) Append(c commit.Commit) error {
	task := -1
	if l.who != nil {
		task = l.who()
	}
	cl := c.Clone()
	l.mu.Lock()
	if l.onAppend != nil {
		l.onAppend() // under the lock: the i-th call belongs to the i-th recorded commit
	}
	seq := len(l.commits)
	l.commits = append(l.commits, recCommit{ID: c.ID, Chunk: c.Chunk, Clone: cl, Task: task, Seq: seq})
	fail := l.failSeq
	l.mu.Unlock()
	if fail != nil {
		return fail(seq)
	}
	return nil
}

func (l *recLogger) Len() int {
	l.mu.Lock()
	defer l.mu.Unlock()
	return len(l.commits)
}

func (l *recLogger) Since(n int) []recCommit {
	l.mu.Lock()
	defer l.mu.Unlock()
	return append([]recCommit(nil), l.commits[n:]...)
}

// multiLogger fans a commit out to several loggers (Options.Writer takes one).
type multiLogger []commit.Logger

func (m multiLogger) Append(c commit.Commit) error {
	// every logger gets the commit; the first error is reported
	var first error
	for _, l := range m {
		if err := l.Append(c); err != nil && first == nil {
			first = err
		}
	}
	return first
}
