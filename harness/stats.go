package harness

import (
	"encoding/json"
	"fmt"
	"hash/fnv"
	"os"
	"runtime"
	"sort"
	"strings"
	"sync"
	"sync/atomic"
	"time"
)

// PropStats is what one test process measured for one property.
type PropStats struct {
	Evaluations int64            `json:"evaluations"`
	Nontrivial  int64            `json:"nontrivial"`
	Hashes      []string         `json:"hashes"` // distinct hashes of non-trivial cases
	Labels      map[string]int64 `json:"labels"`
	Samples     []any            `json:"samples"`
	Excluded    map[string]int64 `json:"excluded"` // per known finding: how often the generator avoided its trigger
	Exhaustive  map[string]bool  `json:"exhaustive,omitempty"`
	Notes       []string         `json:"notes,omitempty"`
	Counters    map[string]int64 `json:"counters,omitempty"`

	distinct map[uint64]struct{}
}

var (
	statsMu sync.Mutex
	statsBy = map[string]*PropStats{}
)

const maxSamples = 5

func propStats(prop string) *PropStats {
	s, ok := statsBy[prop]
	if !ok {
		s = &PropStats{Labels: map[string]int64{}, Excluded: map[string]int64{}, Exhaustive: map[string]bool{},
			Counters: map[string]int64{}, distinct: map[uint64]struct{}{}}
		statsBy[prop] = s
	}
	return s
}

func hashCase(desc string) uint64 {
	h := fnv.New64a()
	h.Write([]byte(desc))
	return h.Sum64()
}

// RecordCase records one passing, fully executed case. desc is the canonical
// description of the case (used for the distinct count and as a sample).
func RecordCase(prop string, desc string, nontrivial bool, labels ...string) {
	statsMu.Lock()
	defer statsMu.Unlock()
	s := propStats(prop)
	s.Evaluations++
	for _, l := range labels {
		s.Labels[l]++
	}
	if !nontrivial {
		return
	}
	s.Nontrivial++
	h := hashCase(desc)
	if _, seen := s.distinct[h]; seen {
		return
	}
	s.distinct[h] = struct{}{}
	if len(s.Samples) < maxSamples {
		if len(desc) > 4000 {
			desc = desc[:4000] + "...(truncated)"
		}
		s.Samples = append(s.Samples, strings.Split(desc, "\n"))
	}
}

// CountExcluded notes that the generator avoided the trigger of a known finding.
func CountExcluded(prop, slug string) {
	statsMu.Lock()
	propStats(prop).Excluded[slug]++
	statsMu.Unlock()
}

func CountLabel(prop, label string, n int64) {
	statsMu.Lock()
	propStats(prop).Labels[label] += n
	statsMu.Unlock()
}

func AddCounter(prop, name string, n int64) {
	statsMu.Lock()
	propStats(prop).Counters[name] += n
	statsMu.Unlock()
}

func SetExhaustive(prop, what string, v bool) {
	statsMu.Lock()
	propStats(prop).Exhaustive[what] = v
	statsMu.Unlock()
}

func AddNote(prop, note string) {
	statsMu.Lock()
	s := propStats(prop)
	for _, n := range s.Notes {
		if n == note {
			statsMu.Unlock()
			return
		}
	}
	s.Notes = append(s.Notes, note)
	statsMu.Unlock()
}

type statsFile struct {
	Props         map[string]*PropStats `json:"props"`
	KnownFindings []kfStatus            `json:"known_findings"`
}

func writeStats(path string) {
	statsMu.Lock()
	defer statsMu.Unlock()
	for _, s := range statsBy {
		s.Hashes = s.Hashes[:0]
		for h := range s.distinct {
			s.Hashes = append(s.Hashes, fmt.Sprintf("%016x", h))
		}
		sort.Strings(s.Hashes)
	}
	out := statsFile{Props: statsBy, KnownFindings: kfReport()}
	data, err := json.MarshalIndent(out, "", " ")
	if err != nil {
		fmt.Fprintln(os.Stderr, "verif: cannot marshal stats:", err)
		return
	}
	if err := os.WriteFile(path, data, 0o644); err != nil {
		fmt.Fprintln(os.Stderr, "verif: cannot write stats:", err)
	}
}

// Watchdog guards one call into the library from a SEQUENTIAL history: nothing else is going on,
// so a call that does not come back within d can only be a lock that is never released (or an
// endless loop). The process is ended with a line the driver recognises; the trace of the case is
// printed by the caller-supplied describe function.
func Watchdog(prop, what string, d time.Duration, describe func() string) (stop func()) {
	var stopped int32
	ch := after(d)
	go func() {
		<-ch
		if atomic.LoadInt32(&stopped) == 0 {
			watchdogFire(prop, what, d, describe)
		}
	}()
	return func() { atomic.StoreInt32(&stopped, 1) }
}

// after is time.After for limits that decide "this call hangs". One timer of length d would fire
// right after the process - or the whole machine - had been stopped for longer than d (a VM
// snapshot, SIGSTOP, a starved scheduler), although the guarded call got no time at all: that is
// how alarm 17 of DESIGN.md §14 came about. Here the timer is followed by a confirmation period
// of the same length made of five short timers, so a stop of any length uses up at most one of
// them and the guarded call always gets at least 0.8*d of time in which the process really ran.
func after(d time.Duration) <-chan time.Time {
	ch := make(chan time.Time, 1)
	n := 5
	var f func()
	f = func() {
		if n == 0 {
			ch <- time.Now()
			return
		}
		n--
		time.AfterFunc(d/5, f)
	}
	time.AfterFunc(d, f)
	return ch
}

func watchdogFire(prop, what string, d time.Duration, describe func() string) {
	buf := make([]byte, 4<<20)
	buf = buf[:runtime.Stack(buf, true)]
	var keep []string
	for _, g := range strings.Split(string(buf), "\n\n") {
		if strings.Contains(g, "kelindar/column") {
			keep = append(keep, g)
		}
	}
	desc := ""
	if describe != nil {
		desc = describe()
	}
	fmt.Printf("\nWATCHDOG-VIOLATION %s violated: %s did not return within %s in a sequential history (a call that never completes: a lock that is never released)\n--- history ---\n%s\n=== goroutines inside kelindar/column ===\n%s\n", prop, what, d, desc, strings.Join(keep, "\n\n"))
	os.Exit(7)
}
