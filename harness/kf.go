package harness

import (
	"bufio"
	"fmt"
	"os"
	"sort"
	"strings"
	"sync"
)

// Known findings protocol (DESIGN.md §7).
//
// /verif/known_findings.txt lists "finding:" lines with a key=<slug>. For every
// slug the harness has a deterministic reproduction (registered with
// registerKF). A generator switch for a slug is ON only if (a) the slug is listed
// as a finding in the file and (b) its reproduction still fails on the tree
// under test. Otherwise the switch is off and the generated search covers the
// region again.

type kfEntry struct {
	slug  string
	prop  string // comma-separated properties whose checks use the switch
	what  string
	repro func() (failed bool, detail string)

	once   sync.Once
	failed bool
	detail string
}

type kfStatus struct {
	Slug     string `json:"slug"`
	Property string `json:"property"`
	Listed   bool   `json:"listed"`
	Checked  bool   `json:"checked"`
	Failed   bool   `json:"failed"`
	Detail   string `json:"detail"`
	What     string `json:"what"`
}

var (
	kfMu      sync.Mutex
	kfReg     = map[string]*kfEntry{}
	kfListed  map[string]string // slug -> text of the finding line
	kfChecked = map[string]bool{}
)

func registerKF(slug, prop, what string, repro func() (bool, string)) {
	kfReg[slug] = &kfEntry{slug: slug, prop: prop, what: what, repro: repro}
}

func loadKFList() {
	kfListed = map[string]string{}
	path := os.Getenv("VERIF_KF_FILE")
	if path == "" {
		path = "/verif/known_findings.txt"
	}
	f, err := os.Open(path)
	if err != nil {
		return
	}
	defer f.Close()
	sc := bufio.NewScanner(f)
	for sc.Scan() {
		line := strings.TrimSpace(sc.Text())
		if !strings.HasPrefix(line, "finding:") {
			continue
		}
		for _, tok := range strings.Fields(line) {
			if strings.HasPrefix(tok, "key=") {
				kfListed[strings.TrimPrefix(tok, "key=")] = line
			}
		}
	}
}

// runRepro evaluates the reproduction of a finding once per process, catching panics.
func (e *kfEntry) run() {
	e.once.Do(func() {
		func() {
			defer func() {
				if r := recover(); r != nil {
					e.failed = true
					e.detail = fmt.Sprintf("panic: %v", r)
				}
			}()
			e.failed, e.detail = e.repro()
		}()
		kfMu.Lock()
		kfChecked[e.slug] = true
		kfMu.Unlock()
	})
}

// KFActive reports whether the generator switch of a known finding is on: the
// finding is listed in the committed file AND its reproduction still fails.
func KFActive(slug string) bool {
	e, ok := kfReg[slug]
	if !ok {
		panic("unknown known-finding slug " + slug)
	}
	kfMu.Lock()
	if kfListed == nil {
		loadKFList()
	}
	_, listed := kfListed[slug]
	kfMu.Unlock()
	if !listed {
		return false
	}
	e.run()
	return e.failed
}

func kfReport() []kfStatus {
	kfMu.Lock()
	defer kfMu.Unlock()
	if kfListed == nil {
		loadKFList()
	}
	var out []kfStatus
	for slug, e := range kfReg {
		_, listed := kfListed[slug]
		out = append(out, kfStatus{Slug: slug, Property: e.prop, Listed: listed, Checked: kfChecked[slug],
			Failed: e.failed, Detail: e.detail, What: e.what})
	}
	sort.Slice(out, func(i, j int) bool { return out[i].Slug < out[j].Slug })
	return out
}
