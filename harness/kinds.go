package harness

import (
	"encoding/binary"
	"errors"
	"fmt"
	"math"
	"runtime"
	"strings"
	"sync/atomic"

	"github.com/kelindar/column"
)

// Kind is a column kind of kelindar/column.
type Kind uint8

const (
	KInt Kind = iota
	KInt16
	KInt32
	KInt64
	KUint
	KUint16
	KUint32
	KUint64
	KFloat32
	KFloat64
	KBool
	KString
	KEnum
	KRecord
	KKey
	numKinds
)

var kindNames = [...]string{"int", "int16", "int32", "int64", "uint", "uint16", "uint32", "uint64", "float32", "float64", "bool", "string", "enum", "record", "key"}

func (k Kind) String() string { return kindNames[k] }

func (k Kind) Numeric() bool { return k <= KFloat64 }
func (k Kind) Integer() bool { return k <= KUint64 }
func (k Kind) Signed() bool  { return k <= KInt64 }
func (k Kind) Float() bool   { return k == KFloat32 || k == KFloat64 }
func (k Kind) Textual() bool { return k == KString || k == KEnum || k == KKey }
func (k Kind) Bytes() bool   { return k >= KString }

// Width in bytes of a numeric kind in the commit buffer.
func (k Kind) Width() int {
	switch k {
	case KInt16, KUint16:
		return 2
	case KInt32, KUint32, KFloat32:
		return 4
	case KBool:
		return 0
	}
	return 8
}

// MergeKind selects the merge function a column is created with.
type MergeKind uint8

const (
	MDefault       MergeKind = iota // numbers: wrapping addition; strings/records: replace by the delta
	MMulAdd                         // numbers: value*3 + delta (order-sensitive, wrapping)
	MConcat                         // strings: value + delta (changes the length)
	MMix                            // strings: order-sensitive, same length as the delta
	MRecSum                         // records: A += d.A, B = v.B + d.B (changes the length)
	MRecMix                         // records: A = v.A*3 + d.A, B = d.B (order-sensitive, same length as the delta)
	MMax                            // strings: the greater of value and delta, returned AS IS (no copy; commutative)
	MRecAddInPlace                  // records: v.A += d.A, returns v itself (mutates and returns one of its arguments; commutative)
	MSetOrAppend                    // strings: a delta "=text" sets the value to a SUB-SLICE of the delta (no copy), anything else is appended (changes the length)
	numMergeKinds
)

var mergeNames = [...]string{"default", "muladd", "concat", "mix", "recsum", "recmix", "max", "recadd-inplace", "set-or-append"}

func (m MergeKind) String() string { return mergeNames[m] }

// Value is a column value: numbers and bools as canonical bit patterns (so NaN
// payloads, -0 and integer extremes compare bit for bit), everything else as bytes.
type Value struct {
	B uint64
	S string
}

func (v Value) render(k Kind) string {
	switch {
	case k == KBool:
		return fmt.Sprint(v.B != 0)
	case k.Signed():
		return fmt.Sprint(int64(v.B))
	case k.Integer():
		return fmt.Sprint(v.B)
	case k.Float() && v.S == nanAny:
		return "NaN(any payload)"
	case k == KFloat32:
		return fmt.Sprintf("f32(%#x=%v)", uint32(v.B), math.Float32frombits(uint32(v.B)))
	case k == KFloat64:
		return fmt.Sprintf("f64(%#x=%v)", v.B, math.Float64frombits(v.B))
	case k == KRecord:
		return fmt.Sprintf("rec(%x)", clipS(v.S))
	}
	return fmt.Sprintf("%q", clipS(v.S))
}

func clipS(s string) string {
	if len(s) > 24 {
		return s[:10] + fmt.Sprintf("..(%d bytes)..", len(s)) + s[len(s)-6:]
	}
	return s
}

// canon truncates/sign-extends raw bits to the canonical representation of kind k.
func canon(k Kind, bits uint64) uint64 {
	switch k {
	case KInt16:
		return uint64(int64(int16(bits)))
	case KInt32:
		return uint64(int64(int32(bits)))
	case KUint16:
		return bits & 0xffff
	case KUint32, KFloat32:
		return bits & 0xffffffff
	case KBool:
		if bits != 0 {
			return 1
		}
		return 0
	}
	return bits
}

func mulAdd[T ~int | ~int16 | ~int32 | ~int64 | ~uint | ~uint16 | ~uint32 | ~uint64 | ~float32 | ~float64](v, d T) T {
	return v*3 + d
}

// mergeNumeric computes the model result of merging delta into cur for a numeric kind.
func mergeNumeric(k Kind, mk MergeKind, cur, delta uint64) uint64 {
	mul := mk == MMulAdd
	switch k {
	case KFloat32:
		a, b := math.Float32frombits(uint32(cur)), math.Float32frombits(uint32(delta))
		if mul {
			return uint64(math.Float32bits(mulAdd(a, b)))
		}
		return uint64(math.Float32bits(a + b))
	case KFloat64:
		a, b := math.Float64frombits(cur), math.Float64frombits(delta)
		if mul {
			return math.Float64bits(mulAdd(a, b))
		}
		return math.Float64bits(a + b)
	}
	if mul {
		return canon(k, cur*3+delta)
	}
	return canon(k, cur+delta)
}

func mixString(v, d string) string {
	// order-sensitive, keeps the delta's length
	out := []byte(d)
	seed := byte(len(v))
	for i := 0; i < len(v); i++ {
		seed = seed*31 + v[i]
	}
	for i := range out {
		out[i] = 'a' + (out[i]+seed+byte(i))%26
	}
	return string(out)
}

// Rec is the record type used for record columns.
type Rec struct {
	A uint32
	B string
	// C is optional: it is encoded only when it is non-zero, and - like encoding/json with
	// omitempty, the codec of the README's record example - UnmarshalBinary leaves it alone when
	// the input does not carry it. A decoder may only be handed a fresh (or reset) instance.
	C uint16
}

// recYield makes MarshalBinary yield the processor first (widens the window between a merge
// function returning and its result being encoded; used by the free-parallel checks only).
var recYield atomic.Bool

func (r *Rec) MarshalBinary() ([]byte, error) {
	if recYield.Load() {
		runtime.Gosched()
	}
	out := make([]byte, 5, 7+len(r.B))
	binary.BigEndian.PutUint32(out, r.A)
	if r.C != 0 {
		out[4] = 1
		out = append(out, byte(r.C>>8), byte(r.C))
	}
	return append(out, r.B...), nil
}

func (r *Rec) UnmarshalBinary(b []byte) error {
	if len(b) == 0 {
		*r = Rec{}
		return nil
	}
	if len(b) < 5 || (b[4] == 1 && len(b) < 7) || b[4] > 1 {
		return errors.New("rec: malformed input")
	}
	r.A = binary.BigEndian.Uint32(b)
	rest := b[5:]
	if b[4] == 1 {
		r.C = uint16(rest[0])<<8 | uint16(rest[1]) // only touched when present
		rest = rest[2:]
	}
	r.B = string(rest)
	return nil
}

func recBytes(a uint32, b string) string { return recBytes3(a, b, 0) }

func recBytes3(a uint32, b string, c uint16) string {
	r := Rec{A: a, B: b, C: c}
	out, _ := r.MarshalBinary()
	return string(out)
}

func recSum(v, d *Rec) *Rec { return &Rec{A: v.A + d.A, B: v.B + d.B, C: v.C + d.C} }
func recMix(v, d *Rec) *Rec { return &Rec{A: v.A*3 + d.A, B: d.B, C: d.C} } // same encoded length as the delta

// mergeBytes computes the model result of a merge for string/record kinds.
func mergeBytes(k Kind, mk MergeKind, cur, delta string) string {
	switch k {
	case KString:
		switch mk {
		case MConcat:
			return cur + delta
		case MMix:
			return mixString(cur, delta)
		case MMax:
			return maxString(cur, delta)
		case MSetOrAppend:
			return setOrAppend(cur, delta)
		}
		return delta
	case KRecord:
		var v, d Rec
		if v.UnmarshalBinary([]byte(cur)) != nil || d.UnmarshalBinary([]byte(delta)) != nil {
			return cur
		}
		switch mk {
		case MRecSum:
			out, _ := recSum(&v, &d).MarshalBinary()
			return string(out)
		case MRecMix:
			out, _ := recMix(&v, &d).MarshalBinary()
			return string(out)
		case MRecAddInPlace:
			v.A += d.A
			out, _ := v.MarshalBinary()
			return string(out)
		}
		// default record merge returns the delta; it is re-marshalled by the column
		out, _ := d.MarshalBinary()
		return string(out)
	}
	return delta
}

// mergeChangesLen reports whether a merge on this column can produce a result
// whose length differs from the delta's (the trigger class of known finding F15).
func mergeChangesLen(k Kind, mk MergeKind) bool {
	return (k == KString && (mk == MConcat || mk == MMax || mk == MSetOrAppend)) || (k == KRecord && mk == MRecSum)
}

// maxString returns one of its arguments unchanged (a merge function that hands
// the delta back as is must not make the stored value alias the transaction buffer).
// setOrAppend: "=text" replaces the value by text - handed back as a sub-slice of the delta, which
// is neither the delta itself nor a copy - anything else is appended.
func setOrAppend(v, d string) string {
	if len(d) > 0 && d[0] == '=' {
		return d[1:]
	}
	return v + d
}

func maxString(v, d string) string {
	if d > v {
		return d
	}
	return v
}

// ColSpec describes one column of a schema.
type ColSpec struct {
	Name  string
	Kind  Kind
	Merge MergeKind
	Late  bool // created after rows exist (by a machine action)
}

func (c ColSpec) String() string {
	s := c.Name + ":" + c.Kind.String()
	if c.Merge != MDefault {
		s += "/" + c.Merge.String()
	}
	if c.Late {
		s += "/late"
	}
	return s
}

// Schema of a generated collection. Cols[0] is always the built-in "expire" column.
type Schema struct {
	Capacity int
	Cols     []ColSpec
	Key      int // index of the key column in Cols, or -1
}

func (s *Schema) String() string {
	parts := make([]string, len(s.Cols))
	for i, c := range s.Cols {
		parts[i] = c.String()
	}
	return fmt.Sprintf("capacity=%d cols=[%s]", s.Capacity, strings.Join(parts, " "))
}

func (s *Schema) col(name string) int {
	for i, c := range s.Cols {
		if c.Name == name {
			return i
		}
	}
	return -1
}

// newColumn builds the kelindar/column column for a spec.
func newColumn(cs ColSpec) column.Column {
	mul := cs.Merge == MMulAdd
	switch cs.Kind {
	case KInt:
		if mul {
			return column.ForInt(column.WithMerge(mulAdd[int]))
		}
		return column.ForInt()
	case KInt16:
		if mul {
			return column.ForInt16(column.WithMerge(mulAdd[int16]))
		}
		return column.ForInt16()
	case KInt32:
		if mul {
			return column.ForInt32(column.WithMerge(mulAdd[int32]))
		}
		return column.ForInt32()
	case KInt64:
		if mul {
			return column.ForInt64(column.WithMerge(mulAdd[int64]))
		}
		return column.ForInt64()
	case KUint:
		if mul {
			return column.ForUint(column.WithMerge(mulAdd[uint]))
		}
		return column.ForUint()
	case KUint16:
		if mul {
			return column.ForUint16(column.WithMerge(mulAdd[uint16]))
		}
		return column.ForUint16()
	case KUint32:
		if mul {
			return column.ForUint32(column.WithMerge(mulAdd[uint32]))
		}
		return column.ForUint32()
	case KUint64:
		if mul {
			return column.ForUint64(column.WithMerge(mulAdd[uint64]))
		}
		return column.ForUint64()
	case KFloat32:
		if mul {
			return column.ForFloat32(column.WithMerge(mulAdd[float32]))
		}
		return column.ForFloat32()
	case KFloat64:
		if mul {
			return column.ForFloat64(column.WithMerge(mulAdd[float64]))
		}
		return column.ForFloat64()
	case KBool:
		return column.ForBool()
	case KString:
		switch cs.Merge {
		case MConcat:
			return column.ForString(column.WithMerge(func(v, d string) string { return v + d }))
		case MMix:
			return column.ForString(column.WithMerge(mixString))
		case MMax:
			return column.ForString(column.WithMerge(maxString))
		case MSetOrAppend:
			return column.ForString(column.WithMerge(setOrAppend))
		}
		return column.ForString()
	case KEnum:
		return column.ForEnum()
	case KKey:
		return column.ForKey()
	case KRecord:
		mk := func() *Rec { return new(Rec) }
		switch cs.Merge {
		case MRecSum:
			return column.ForRecord(mk, column.WithMerge(recSum))
		case MRecMix:
			return column.ForRecord(mk, column.WithMerge(recMix))
		case MRecAddInPlace:
			return column.ForRecord(mk, column.WithMerge(func(v, d *Rec) *Rec { v.A += d.A; return v }))
		}
		return column.ForRecord(mk)
	}
	panic("unknown kind")
}

// newCollection creates a collection for a schema with every non-late column.
// The vacuum goroutine is parked (24h interval) and the caller must Close().
func newCollection(s *Schema, opts column.Options) *column.Collection {
	opts.Capacity = s.Capacity
	if opts.Vacuum == 0 {
		opts.Vacuum = 24 * 3600 * 1e9
	}
	c := column.NewCollection(opts)
	for i, cs := range s.Cols {
		if i == 0 || cs.Late {
			continue // "expire" exists already; late columns are created by an action
		}
		if err := c.CreateColumn(cs.Name, newColumn(cs)); err != nil {
			panic(fmt.Sprintf("CreateColumn(%s): %v", cs.Name, err))
		}
	}
	return c
}

// newCollectionLive creates a collection holding exactly the schema columns that are live.
func newCollectionLive(s *Schema, live []bool, opts column.Options) *column.Collection {
	opts.Capacity = s.Capacity
	if opts.Vacuum == 0 {
		opts.Vacuum = 24 * 3600 * 1e9
	}
	c := column.NewCollection(opts)
	for i, cs := range s.Cols {
		if i == 0 || !live[i] {
			continue
		}
		if err := c.CreateColumn(cs.Name, newColumn(cs)); err != nil {
			panic(fmt.Sprintf("CreateColumn(%s): %v", cs.Name, err))
		}
	}
	return c
}
