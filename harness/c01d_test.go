package harness

import (
	"fmt"
	"os"
	"sort"
	"strings"
	"testing"

	"github.com/kelindar/column"
	"github.com/kelindar/column/commit"
	"pgregory.net/rapid"
)

// dropEvents records, in the order in which they happened on the primary, the emitted commits and
// the DDL steps, as closures that repeat them on a follower.
type dropEvents struct {
	list []func(*column.Collection) error
}

func (e *dropEvents) Append(cm commit.Commit) error {
	cl := cm.Clone()
	e.list = append(e.list, func(r *column.Collection) error { return r.Replay(cl) })
	return nil
}

// TestC01DropInSweep: DropColumn takes no lock, so in a program with a second goroutine it can land
// in the middle of a commit - in particular while the commit walks the column registry to clear the
// deleted rows out of every column. The harness owns that instant without a second goroutine: a
// trigger callback, which the walk itself calls when it reaches the trigger's registry entry,
// performs the DropColumn. The registry order (creation order of value columns, scratch columns and
// the trigger) is drawn, so the dropped entry lies before or behind the walk's position.
//
// Oracle: a plain model (offset -> value per live column). After every step every live row reads
// exactly the values its own insert stored in every live column (so a column which the walk skipped
// shows up as soon as the offset is re-used), Count agrees, inserts get free offsets.
// non-trivial = a drop landed inside a delete sweep and one of the swept offsets was re-used later.
func TestC01DropInSweep(t *testing.T) {
	rapid.Check(t, func(t *rapid.T) {
		capacity := rapid.SampledFrom(capacities).Draw(t, "capacity")
		prop := os.Getenv("VERIF_PROP")
		if prop != "C06" {
			prop = "C01"
		}
		events := &dropEvents{}
		c := column.NewCollection(column.Options{Capacity: capacity, Vacuum: 24 * 3600 * 1e9, Writer: events})
		defer c.Close()
		ddl := func(name string, create bool) {
			events.list = append(events.list, func(r *column.Collection) error {
				if create {
					return r.CreateColumn(name, column.ForInt())
				}
				r.DropColumn(name)
				return nil
			})
		}
		var trace []string
		logf := func(f string, a ...interface{}) { trace = append(trace, fmt.Sprintf(f, a...)) }
		fail := func(f string, a ...interface{}) {
			t.Fatalf("%s violated: %s\nhistory:\n  %s", prop, fmt.Sprintf(f, a...), strings.Join(trace, "\n  "))
		}
		// registry layout: d0 first (never dropped, the trigger watches it), then a drawn shuffle of
		// value columns, scratch columns and the trigger
		nData, nTmp := rapid.IntRange(2, 5).Draw(t, "value-columns"), rapid.IntRange(1, 3).Draw(t, "scratch-columns")
		entries := []string{"TRIGGER"}
		for i := 1; i < nData; i++ {
			entries = append(entries, fmt.Sprintf("d%d", i))
		}
		for i := 0; i < nTmp; i++ {
			entries = append(entries, fmt.Sprintf("t%d", i))
		}
		entries = rapid.Permutation(entries).Draw(t, "registry-order")
		live := map[string]bool{"d0": true}
		var armed string // column the trigger callback drops at the next delete it sees
		sweepDrops, bodyDrops := 0, 0
		c.CreateColumn("d0", column.ForInt())
		for _, e := range entries {
			if e == "TRIGGER" {
				c.CreateTrigger("watch", "d0", func(r column.Reader) {
					if r.IsDelete() && armed != "" {
						c.DropColumn(armed)
						ddl(armed, false)
						armed = ""
						sweepDrops++
					}
				})
				continue
			}
			c.CreateColumn(e, column.ForInt())
			live[e] = true
		}
		logf("registry: d0 %s", strings.Join(entries, " "))
		liveCols := func() []string {
			var out []string
			for n, ok := range live {
				if ok {
					out = append(out, n)
				}
			}
			sort.Strings(out)
			return out
		}
		rows := map[uint32]map[string]int{}
		swept := map[uint32]bool{} // offsets deleted by a sweep in which a drop landed
		reusedSwept := false
		check := func() {
			if c.Count() != len(rows) {
				fail("Count()=%d, the model has %d live rows", c.Count(), len(rows))
			}
			seen := 0
			c.Query(func(txn *column.Txn) error {
				return txn.Range(func(off uint32) {
					seen++
					want, ok := rows[off]
					if !ok {
						fail("Range visits offset %d, which holds no live row", off)
					}
					for _, n := range liveCols() {
						got, has := txn.Int(n).Get()
						w, wants := want[n]
						if has != wants || (has && got != w) {
							fail("row %d column %s reads %d/%v, its insert stored %d/%v", off, n, got, has, w, wants)
						}
					}
				})
			})
			if seen != len(rows) {
				fail("Range visited %d rows, the model has %d", seen, len(rows))
			}
		}
		t.Repeat(map[string]func(*rapid.T){
			"insert": func(t *rapid.T) {
				n := rapid.SampledFrom([]int{1, 3, 20}).Draw(t, "n")
				cols := liveCols()
				plans := make([]map[string]int, n)
				for i := range plans {
					plans[i] = map[string]int{"d0": rapid.IntRange(0, 99).Draw(t, "d0")}
					for _, name := range cols {
						if name != "d0" && rapid.IntRange(0, 2).Draw(t, "set") != 0 {
							plans[i][name] = rapid.IntRange(100, 999).Draw(t, "v")
						}
					}
				}
				var offs []uint32
				c.Query(func(txn *column.Txn) error {
					for _, p := range plans {
						p := p
						off, _ := txn.Insert(func(r column.Row) error {
							for _, name := range cols {
								if v, ok := p[name]; ok {
									r.SetInt(name, v)
								}
							}
							return nil
						})
						offs = append(offs, off)
					}
					return nil
				})
				for i, off := range offs {
					if rows[off] != nil {
						fail("insert received offset %d, which holds a live row", off)
					}
					rows[off] = plans[i]
					if swept[off] {
						reusedSwept = true
					}
				}
				logf("insert %v -> %v", plans, offs)
			},
			"delete": func(t *rapid.T) {
				var offs []uint32
				for off := range rows {
					offs = append(offs, off)
				}
				if len(offs) == 0 {
					t.Skip("no rows")
				}
				sort.Slice(offs, func(i, j int) bool { return offs[i] < offs[j] })
				var del []uint32
				if rapid.Bool().Draw(t, "one") {
					del = append(del, offs[rapid.IntRange(0, len(offs)-1).Draw(t, "row")])
				} else {
					for i, off := range offs {
						if i%2 == 0 {
							del = append(del, off)
						}
					}
				}
				var droppable []string
				for _, n := range liveCols() {
					if n != "d0" {
						droppable = append(droppable, n)
					}
				}
				drop := ""
				if len(droppable) > 0 && rapid.IntRange(0, 2).Draw(t, "drop-inside-the-sweep") != 0 {
					drop = rapid.SampledFrom(droppable).Draw(t, "drop")
				}
				armed = drop
				c.Query(func(txn *column.Txn) error {
					for _, off := range del {
						txn.DeleteAt(off)
					}
					return nil
				})
				if drop != "" {
					if armed != "" {
						fail("harness: the trigger never saw the delete of %v", del)
					}
					live[drop] = false
					for _, r := range rows {
						delete(r, drop)
					}
				}
				for _, off := range del {
					delete(rows, off)
					if drop != "" {
						swept[off] = true
					}
				}
				logf("delete %v (DropColumn(%q) lands inside the sweep)", del, drop)
			},
			// a transaction that writes several columns of several rows (stores and merges) while a
			// DropColumn of one of them lands in the middle of its body: the writes queued for the dropped
			// column vanish with it, every other write of the transaction must arrive
			"update": func(t *rapid.T) {
				var offs []uint32
				for off := range rows {
					offs = append(offs, off)
				}
				if len(offs) == 0 {
					t.Skip("no rows")
				}
				sort.Slice(offs, func(i, j int) bool { return offs[i] < offs[j] })
				cols := liveCols()
				type write struct {
					off   uint32
					col   string
					merge bool
					v     int
				}
				n := rapid.IntRange(1, 8).Draw(t, "writes")
				var writes []write
				for i := 0; i < n; i++ {
					writes = append(writes, write{off: offs[rapid.IntRange(0, len(offs)-1).Draw(t, "row")], col: rapid.SampledFrom(cols).Draw(t, "col"),
						merge: rapid.Bool().Draw(t, "merge"), v: rapid.IntRange(1, 50).Draw(t, "v")})
				}
				drop, dropAt := "", -1
				if rapid.IntRange(0, 2).Draw(t, "drop-inside-the-body") != 0 {
					var droppable []string
					for _, c := range cols {
						if c != "d0" {
							droppable = append(droppable, c)
						}
					}
					if len(droppable) > 0 {
						drop = rapid.SampledFrom(droppable).Draw(t, "drop")
						dropAt = rapid.IntRange(0, n).Draw(t, "drop-at")
					}
				}
				accessors := rapid.Bool().Draw(t, "column-accessors")
				var done []write
				c.Query(func(txn *column.Txn) error {
					for i := 0; i <= n; i++ {
						if drop != "" && i == dropAt {
							c.DropColumn(drop)
							ddl(drop, false)
							live[drop] = false
							bodyDrops++
						}
						if i == n || (!live[writes[i].col]) {
							continue // after the drop the body no longer names the dropped column
						}
						w := writes[i]
						done = append(done, w)
						if accessors {
							// txn.Int(name) at the cursor, the way the README's transactions are written
							txn.QueryAt(w.off, func(column.Row) error { return nil })
							col := txn.Int(w.col)
							if w.merge {
								col.Merge(w.v)
							} else {
								col.Set(w.v)
							}
							continue
						}
						txn.QueryAt(w.off, func(r column.Row) error {
							if w.merge {
								r.MergeInt(w.col, w.v)
							} else {
								r.SetInt(w.col, w.v)
							}
							return nil
						})
					}
					return nil
				})
				writes = done
				for _, w := range writes {
					if !live[w.col] {
						continue
					}
					if w.merge {
						rows[w.off][w.col] += w.v
					} else {
						rows[w.off][w.col] = w.v
					}
				}
				for name, ok := range live {
					if !ok {
						for _, r := range rows {
							delete(r, name)
						}
					}
				}
				logf("update %v accessors=%v (DropColumn lands before write #%d)", writes, accessors, dropAt)
			},
			"recreate": func(t *rapid.T) {
				var names []string
				for n := range live {
					names = append(names, n)
				}
				sort.Strings(names)
				for _, n := range names {
					if !live[n] {
						c.CreateColumn(n, column.ForInt())
						ddl(n, true)
						live[n] = true
						logf("createColumn %s again", n)
						return
					}
				}
				t.Skip("nothing dropped")
			},
			"": func(t *rapid.T) { check() },
		})
		check()
		// a follower that starts with the initial columns and repeats the emitted commits and the DDL steps
		// in the order in which they happened must end up equal to the model as well (C06 when run for it)
		follower := column.NewCollection(column.Options{Capacity: capacity, Vacuum: 24 * 3600 * 1e9})
		defer follower.Close()
		follower.CreateColumn("d0", column.ForInt())
		for _, e := range entries {
			if e != "TRIGGER" {
				follower.CreateColumn(e, column.ForInt())
			}
		}
		for i, ev := range events.list {
			if err := ev(follower); err != nil {
				fail("follower: event #%d failed: %v", i, err)
			}
		}
		if prop == "C06" {
			if follower.Count() != len(rows) {
				fail("the follower of the change stream has %d rows, the primary (and the model) %d", follower.Count(), len(rows))
			}
			follower.Query(func(txn *column.Txn) error {
				return txn.Range(func(off uint32) {
					want, ok := rows[off]
					if !ok {
						fail("the follower of the change stream holds a row at offset %d, the primary does not", off)
					}
					for _, n := range liveCols() {
						got, has := txn.Int(n).Get()
						w, wants := want[n]
						if has != wants || (has && got != w) {
							fail("follower of the change stream: row %d column %s reads %d/%v, the primary holds %d/%v", off, n, got, has, w, wants)
						}
					}
				})
			})
		}
		var labels []string
		if sweepDrops > 0 {
			labels = append(labels, "drop-inside-delete-sweep")
		}
		if reusedSwept {
			labels = append(labels, "swept-offset-reused")
		}
		if bodyDrops > 0 {
			labels = append(labels, "drop-inside-transaction-body")
		}
		RecordCase(prop, "drop-in-sweep: "+strings.Join(trace, "; "), reusedSwept || bodyDrops > 0, labels...)
	})
}
