package harness

import (
	"bytes"
	"fmt"
	"sort"
	"testing"
	"time"

	"github.com/kelindar/column"
	"github.com/kelindar/column/commit"
	"pgregory.net/rapid"
)

// ---------------------------------------------------------------------------
// C15 — the change stream is exactly-once, per-block ordered and identifiable
// ---------------------------------------------------------------------------

// streamChecker accumulates the stream-wide invariants: IDs non-zero, pairwise
// distinct, strictly increasing per block in record order.
type streamChecker struct {
	seen      map[uint64]int
	lastBlock map[uint32]uint64
}

func newStreamChecker() *streamChecker {
	return &streamChecker{seen: map[uint64]int{}, lastBlock: map[uint32]uint64{}}
}

func (sc *streamChecker) add(rc recCommit) error {
	if rc.ID == 0 {
		return fmt.Errorf("commit #%d (block %d) has ID 0", rc.Seq, rc.Chunk)
	}
	if prev, dup := sc.seen[rc.ID]; dup {
		return fmt.Errorf("commit #%d (block %d) has the same ID %d as commit #%d", rc.Seq, rc.Chunk, rc.ID, prev)
	}
	sc.seen[rc.ID] = rc.Seq
	if last := sc.lastBlock[uint32(rc.Chunk)]; rc.ID <= last {
		return fmt.Errorf("block %d: commit #%d has ID %d after ID %d: IDs do not increase in the order the commits were applied", rc.Chunk, rc.Seq, rc.ID, last)
	}
	sc.lastBlock[uint32(rc.Chunk)] = rc.ID
	return nil
}

func blocksString(m map[uint32]int) string {
	keys := make([]int, 0, len(m))
	for k := range m {
		keys = append(keys, int(k))
	}
	sort.Ints(keys)
	s := ""
	for _, k := range keys {
		s += fmt.Sprintf("%d x%d ", k, m[uint32(k)])
	}
	return s
}

func TestC15(t *testing.T) {
	rapid.Check(t, func(t *rapid.T) {
		sch := genSchema(t, SchemaCfg{Key: 1, Merges: true, MinCols: 1, MaxCols: 4})
		log := &recLogger{}
		// half of the histories run with a logger that REFUSES every 2nd or 3rd commit (it records it,
		// then returns an error - an anonymous one, os.ErrClosed, io.ErrShortWrite, ... in rotation): the
		// collection must keep offering it every later commit, also the other blocks of the same transaction
		if refuse := rapid.SampledFrom([]int{0, 0, 2, 3}).Draw(t, "logger-refuses-every"); refuse > 0 {
			log.failSeq = func(seq int) error {
				if seq%refuse == refuse-1 {
					return faultErrors[seq%len(faultErrors)]
				}
				return nil
			}
		}
		ch := make(commit.Channel, 64)
		mc := NewMachine("C15", sch, column.Options{Writer: multiLogger{log, ch}})
		if log.failSeq != nil {
			mc.flag("logger-refuses-some-commits")
		}
		defer mc.Close()
		defer mc.Guard(t)
		cfg := TxnCfg{Prop: "C15", MaxSteps: 10, Peeks: true, Rollback: true, FailInsert: true, PropagateInsertFailure: true, Deletes: true, Inserts: true, Merges: true, OwnUpdates: true, KeyOps: true, Direct: true,
			NoStoreOnDel: KFActive("f11-store-and-delete-same-txn"), NoOpAfterLenMerge: KFActive("f15-difflen-merge-reorder")}
		sc := newStreamChecker()
		interesting := false
		// a relay: a collection that replays the stream AND has a logger (and a few writes) of its own.
		// What IT emits is a change stream too: one commit per replayed commit / local write, with
		// distinct non-zero IDs that increase per block in the order the relay applied them.
		rlog := &recLogger{}
		relay := newCollection(sch, column.Options{Writer: rlog})
		defer relay.Close()
		rsc := newStreamChecker()
		relayStep := func(t *rapid.T, what string, block uint32, fn func()) {
			rn0 := rlog.Len()
			fn()
			out := rlog.Since(rn0)
			if len(out) != 1 || uint32(out[0].Chunk) != block {
				mc.fail(t, "relay (replays the stream, has its own logger): %s on block %d made it emit %d commit(s) %v", what, block, len(out), out)
			}
			for _, rc := range out {
				if err := rsc.add(rc); err != nil {
					mc.fail(t, "relay (replays the stream, has its own logger): after %s: %v", what, err)
				}
			}
		}
		// drainCheck compares what the logger got since n0 with the blocks the model says changed.
		drainCheck := func(t *rapid.T, n0 int, wantBlocks map[uint32]bool, what string) {
			got := log.Since(n0)
			gotBlocks := map[uint32]int{}
			for _, rc := range got {
				gotBlocks[uint32(rc.Chunk)]++
				if err := sc.add(rc); err != nil {
					mc.fail(t, "%s: %v", what, err)
				}
				if rapid.IntRange(0, 2).Draw(t, "relay-local-write") == 0 {
					// a write of the relay's own into the block the next replayed commit belongs to
					off := uint32(rc.Chunk)<<14 + uint32(rapid.IntRange(0, 200).Draw(t, "relay-row"))
					relayStep(t, "a local write", uint32(rc.Chunk), func() {
						relay.QueryAt(off, func(r column.Row) error { r.SetInt64("expire", 0); return nil })
					})
					mc.flag("relay-local-write")
				}
				relayStep(t, fmt.Sprintf("Replay of commit #%d", rc.Seq), uint32(rc.Chunk), func() {
					cl := rc.Clone.Clone()
					cl.ID = rc.ID
					if err := relay.Replay(cl); err != nil {
						mc.fail(t, "relay: Replay of commit #%d: %v", rc.Seq, err)
					}
				})
				// the same commit as a commit.Channel consumer receives it
				select {
				case viaCh := <-ch:
					if viaCh.ID != rc.ID || viaCh.Chunk != rc.Chunk {
						mc.fail(t, "%s: commit #%d reaches a commit.Channel consumer with ID=%d block=%d, the logger was given ID=%d block=%d", what, rc.Seq, viaCh.ID, viaCh.Chunk, rc.ID, rc.Chunk)
					}
				default:
					mc.fail(t, "%s: commit #%d did not reach the commit.Channel consumer", what, rc.Seq)
				}
			}
			select {
			case extra := <-ch:
				mc.fail(t, "%s: the commit.Channel consumer received an extra commit (ID=%d block=%d)", what, extra.ID, extra.Chunk)
			default:
			}
			for b := range wantBlocks {
				if gotBlocks[b] != 1 {
					mc.fail(t, "%s: the transaction changed block %d, %d commit(s) were emitted for it (emitted: %s)", what, b, gotBlocks[b], blocksString(gotBlocks))
				}
			}
			for b, n := range gotBlocks {
				if !wantBlocks[b] {
					mc.fail(t, "%s: %d commit(s) emitted for block %d, which the transaction did not change (emitted: %s)", what, n, b, blocksString(gotBlocks))
				}
			}
			if len(wantBlocks) > 1 {
				interesting = true
				mc.flag("multi-block-commit")
			}
		}
		runTxn := func(t *rapid.T) {
			n0 := log.Len()
			spec := genTxn(t, mc.M, mc.Recent, cfg)
			direct := len(spec.Steps) == 1 && spec.FailAt < 0 && rapid.Bool().Draw(t, "direct")
			eff, committed := mc.RunTxn(t, spec, direct)
			want := map[uint32]bool{}
			if committed {
				want = eff.Blocks
				mc.CheckTouched(t, eff)
			}
			if len(want) == 0 {
				mc.flag("nothing-to-emit")
			}
			drainCheck(t, n0, want, "transaction")
		}
		t.Repeat(map[string]func(*rapid.T){
			"txn":  runTxn,
			"txn2": runTxn,
			"readOnly": func(t *rapid.T) {
				n0 := log.Len()
				mc.logf("read-only transaction")
				mc.C.Query(func(txn *column.Txn) error {
					txn.With("expire").Count()
					txn.Range(func(idx uint32) {})
					txn.DeleteAt(0xfffff0)
					return nil
				})
				drainCheck(t, n0, map[uint32]bool{}, "read-only transaction")
			},
			"writeThenDrop": func(t *rapid.T) {
				// the only writes of a transaction go to a column that no longer exists when it commits:
				// nothing is applied, so nothing may be emitted
				var cands []int
				for i, cs := range sch.Cols {
					if i != 0 && mc.M.ColLive[i] && cs.Kind != KKey {
						cands = append(cands, i)
					}
				}
				if len(cands) < 2 || len(mc.M.Rows) == 0 {
					t.Skip("needs two value columns and a row")
				}
				ci := cands[rapid.IntRange(0, len(cands)-1).Draw(t, "col")]
				row, _ := pickLive(t, mc.M, mc.Recent, "row")
				val := genValue(t, sch.Cols[ci], "val")
				n0 := log.Len()
				mc.logf("txn[update@%d{%s}; DropColumn(%s)] commit", row, sch.renderStores([]Store{{Col: ci, Val: val}}), sch.Cols[ci].Name)
				mc.C.Query(func(txn *column.Txn) error {
					txn.QueryAt(row, func(r column.Row) error { writeStore(txn, r, sch.Cols[ci], Store{Col: ci, Val: val}); return nil })
					mc.C.DropColumn(sch.Cols[ci].Name)
					return nil
				})
				mc.M.ColLive[ci] = false
				for _, r := range mc.M.Rows {
					r[ci] = Cell{}
				}
				mc.M.dirty()
				relay.DropColumn(sch.Cols[ci].Name)
				mc.flag("write-to-a-column-dropped-before-commit")
				drainCheck(t, n0, map[uint32]bool{}, "transaction whose only write went to a column that was dropped before it committed")
			},
			"readArchive": func(t *rapid.T) {
				// somebody reads an archive of OLDER commits in this process (Log.Append / Log.Range): the
				// IDs of the commits emitted afterwards must still be fresh
				recs := log.Since(0)
				if len(recs) == 0 {
					t.Skip("nothing recorded yet")
				}
				var buf bytes.Buffer
				arch := commit.Open(&buf)
				upto := rapid.IntRange(1, min(len(recs), 6)).Draw(t, "archived")
				for _, rc := range recs[:upto] {
					cl := rc.Clone.Clone()
					cl.ID = rc.ID
					if err := arch.Append(cl); err != nil {
						mc.fail(t, "Log.Append: %v", err)
					}
				}
				n := 0
				if err := commit.Open(bytes.NewReader(buf.Bytes())).Range(func(commit.Commit) error { n++; return nil }); err != nil || n != upto {
					mc.fail(t, "Log.Range over an archive of %d commits delivered %d, err=%v", upto, n, err)
				}
				mc.logf("archive of the first %d commits written and read back", upto)
				mc.flag("archive-read-in-process")
			},
			"prefill": func(t *rapid.T) {
				n0 := log.Len()
				mc.prefillAction(t)
				want := map[uint32]bool{}
				for _, off := range mc.lastPrefillOffsets {
					want[off>>14] = true
				}
				drainCheck(t, n0, want, "prefill transaction")
			},
			"bulkDelete": func(t *rapid.T) {
				n0 := log.Len()
				before := append([]uint32{}, mc.M.Live()...)
				mc.ActBulkDelete(t)
				want := map[uint32]bool{}
				for _, off := range before {
					if _, still := mc.M.Rows[off]; !still {
						want[off>>14] = true
					}
				}
				drainCheck(t, n0, want, "bulk delete transaction")
			},
		})
		mc.CheckFull(t, false)
		RecordCase("C15", mc.Desc(), interesting, mc.Labels()...)
	})
}

// TestC15Snapshot: transactions that commit WHILE a snapshot is in progress (run
// by the verif hooks at the snapshot's yield points) must still emit exactly one
// commit per changed block to the logger - the snapshot's own recorder is not a
// substitute for the change stream.
func TestC15Snapshot(t *testing.T) {
	rapid.Check(t, func(t *rapid.T) {
		sch := genSchema(t, SchemaCfg{Key: 1, MinCols: 1, MaxCols: 3, Capacities: []int{1, 1024, 16385}})
		log := &recLogger{}
		mc := NewMachine("C15", sch, column.Options{Writer: log})
		defer mc.Close()
		defer mc.Guard(t)
		defer column.SetVerifHook(nil)
		cfg := TxnCfg{Prop: "C15", MaxSteps: 4, Peeks: true, Deletes: true, Inserts: true, Merges: true, NoStoreOnDel: KFActive("f11-store-and-delete-same-txn"),
			NoOpAfterLenMerge: KFActive("f15-difflen-merge-reorder")}
		switch rapid.IntRange(0, 2).Draw(t, "layout") {
		case 0:
			mc.ActPrefill(t, rapid.IntRange(1, 60).Draw(t, "n"), storableCols(mc.M, TxnCfg{}), rapid.Uint64().Draw(t, "seed"))
		case 1:
			mc.ActPrefill(t, 16390, storableCols(mc.M, TxnCfg{})[:1], rapid.Uint64().Draw(t, "seed"))
			mc.thin(t, 20)
		}
		sc := newStreamChecker()
		for _, rc := range log.Since(0) {
			if err := sc.add(rc); err != nil {
				mc.fail(t, "%v", err)
			}
		}
		during := 0
		for round := 0; round < 3; round++ {
			plan := map[string]int{}
			for _, p := range []string{"snapshot:recorder-open", "snapshot:pre-chunk:0", "snapshot:pre-chunk:1", "snapshot:pre-close", "snapshot:pre-copy"} {
				plan[p] = rapid.IntRange(0, 2).Draw(t, "tail-at-"+p)
			}
			n0 := log.Len()
			remove := mc.installTail(t, plan, cfg, func(point string, eff *TxnEffect, committed bool) {
				got := map[uint32]int{}
				for _, rc := range log.Since(n0) {
					got[uint32(rc.Chunk)]++
					if err := sc.add(rc); err != nil {
						mc.fail(t, "commit during a snapshot (at %s): %v", point, err)
					}
				}
				n0 = log.Len()
				want := map[uint32]bool{}
				if committed {
					want = eff.Blocks
				}
				for b := range want {
					if got[b] != 1 {
						mc.fail(t, "a transaction that committed while a snapshot was in progress (at %s) changed block %d; %d commit(s) reached the change stream for it (emitted: %s)", point, b, got[b], blocksString(got))
					}
				}
				for b, n := range got {
					if !want[b] {
						mc.fail(t, "during a snapshot (at %s): %d commit(s) emitted for block %d, which the transaction did not change", point, n, b)
					}
				}
				if len(want) > 0 {
					during++
				}
			})
			var buf bytes.Buffer
			err := mc.C.Snapshot(&buf)
			remove()
			if err != nil {
				mc.fail(t, "Snapshot: %v", err)
			}
			if extra := log.Len() - n0; extra != 0 {
				mc.fail(t, "%d commit(s) reached the change stream from the snapshot itself", extra)
			}
		}
		mc.CheckFull(t, false)
		RecordCase("C15", mc.Desc(), during > 0, "commits-during-snapshot")
	})
}

// TestC15Vacuum: the background cleanup is a committing transaction like any other: what it
// removes must be emitted - exactly once per block, with IDs that fit the stream. Rows with a
// short time-to-live are inserted into one or two blocks; once the cleanup has removed them the
// recorded stream, replayed on a follower that never cleans up by itself, must reproduce the
// primary, and the stream-wide ID invariants must hold.
func TestC15Vacuum(t *testing.T) {
	rapid.Check(t, func(t *rapid.T) {
		twoBlocks := rapid.Bool().Draw(t, "two-blocks")
		k := rapid.IntRange(1, 12).Draw(t, "ttl-rows")
		interval := time.Duration(rapid.SampledFrom([]int{1, 5}).Draw(t, "vacuum-ms")) * time.Millisecond
		log := &recLogger{}
		mk := func(w commit.Logger, vac time.Duration) *column.Collection {
			c := column.NewCollection(column.Options{Vacuum: vac, Writer: w})
			c.CreateColumn("id", column.ForUint64())
			return c
		}
		c := mk(log, interval)
		defer c.Close()
		base := 3
		if twoBlocks {
			base = 16384 - 2 // the TTL rows straddle the block boundary
		}
		c.Query(func(txn *column.Txn) error {
			for i := 0; i < base; i++ {
				txn.Insert(func(r column.Row) error { r.SetUint64("id", uint64(1<<32+i)); return nil })
			}
			return nil
		})
		for i := 0; i < k; i++ {
			ttl := time.Duration(rapid.IntRange(15, 50).Draw(t, "ttl-ms")) * time.Millisecond
			c.Insert(func(r column.Row) error { r.SetUint64("id", uint64(i)); r.SetTTL(ttl); return nil })
		}
		deadline := time.Now().Add(20 * time.Second)
		for c.Count() != base {
			if time.Now().After(deadline) {
				t.Skip("the cleanup did not remove the expired rows within 20 s (C17 judges that)")
			}
			time.Sleep(2 * time.Millisecond)
		}
		c17Present(c) // a full Range waits for a cleanup commit that is still inside its latch
		sc := newStreamChecker()
		follower := mk(nil, time.Hour)
		defer follower.Close()
		for _, rc := range log.Since(0) {
			if err := sc.add(rc); err != nil {
				t.Fatalf("C15 violated (stream with cleanup commits): %v", err)
			}
			cl := rc.Clone.Clone()
			cl.ID = rc.ID
			if err := follower.Replay(cl); err != nil {
				t.Fatalf("Replay: %v", err)
			}
		}
		p, f := c17Present(c), c17Present(follower)
		for id := range f {
			if !p[id] {
				t.Fatalf("C15 violated: the cleanup removed row id=%d (and %d others) from the primary, but no commit for that was emitted: a follower replaying the whole stream still holds it (%d rows vs %d)", id, len(f)-len(p)-1, len(f), len(p))
			}
		}
		if len(p) != len(f) || follower.Count() != c.Count() {
			t.Fatalf("C15 violated: after replaying the whole stream (incl. the cleanup's commits) the follower holds %d rows (Count %d), the primary %d (Count %d)", len(f), follower.Count(), len(p), c.Count())
		}
		RecordCase("C15", fmt.Sprintf("vacuum: %d TTL rows, two blocks=%v, interval %s, %d commits", k, twoBlocks, interval, log.Len()), true, "cleanup-commits-in-the-stream")
	})
}

// TestC15ManyCommits: several blocks are opened by ONE bulk transaction, then many small
// transactions commit into them. Whatever the scheme IDs are drawn by, every emitted commit must
// carry an ID of its own (and a block's IDs must grow) - also after hundreds of commits into the
// older of two blocks that came into being at the same instant.
func TestC15ManyCommits(t *testing.T) {
	rapid.Check(t, func(t *rapid.T) {
		blocks := rapid.IntRange(2, 3).Draw(t, "blocks")
		commits := rapid.IntRange(600, 3000).Draw(t, "commits")
		log := &recLogger{}
		c := column.NewCollection(column.Options{Vacuum: 24 * 3600 * 1e9, Writer: log})
		defer c.Close()
		c.CreateColumn("n", column.ForInt())
		c.Query(func(txn *column.Txn) error {
			for i := 0; i < (blocks-1)*16384+64; i++ {
				txn.Insert(func(r column.Row) error { r.SetInt("n", i); return nil })
			}
			return nil
		})
		busy := uint32(rapid.IntRange(0, blocks-1).Draw(t, "busy-block")) << 14
		for i := 0; i < commits; i++ {
			row := busy + uint32(i%50)
			if i%97 == 0 {
				row = uint32(i%blocks)<<14 + 7
			}
			c.QueryAt(row, func(r column.Row) error { r.SetInt("n", i); return nil })
		}
		sc := newStreamChecker()
		for _, rc := range log.Since(0) {
			if err := sc.add(rc); err != nil {
				t.Fatalf("C15 violated (%d blocks opened by one transaction, then %d commits, most of them into block %d): %v", blocks, commits, busy>>14, err)
			}
		}
		if log.Len() != blocks+commits {
			t.Fatalf("C15 violated: %d commits emitted for a bulk load into %d blocks and %d single-row transactions", log.Len(), blocks, commits)
		}
		RecordCase("C15", fmt.Sprintf("many commits: %d blocks opened at once, %d commits, busy block %d", blocks, commits, busy>>14), true, "hundreds-of-commits-after-a-multi-block-load")
	})
}
