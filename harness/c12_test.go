package harness

import (
	"fmt"
	"testing"

	"github.com/kelindar/column"
	"pgregory.net/rapid"
)

// ---------------------------------------------------------------------------
// C12 — primary keys behave like a map from key to one row
// ---------------------------------------------------------------------------

// checkNoDuplicateKeys scans the collection: no two live rows may share a key.
func (mc *Machine) checkNoDuplicateKeys(t *rapid.T) {
	seen := map[string]uint32{}
	dup := ""
	var a, b uint32
	mc.C.Query(func(txn *column.Txn) error {
		key := txn.Key()
		return txn.Range(func(idx uint32) {
			if k, ok := key.Get(); ok {
				if prev, was := seen[k]; was && dup == "" {
					dup, a, b = k, prev, idx
				}
				seen[k] = idx
			}
		})
	})
	if dup != "" || a != b {
		mc.fail(t, "two live rows (%d and %d) hold key %q", a, b, dup)
	}
}

func TestC12(t *testing.T) {
	rapid.Check(t, func(t *rapid.T) {
		sch := genSchema(t, SchemaCfg{Key: 2, MinCols: 1, MaxCols: 3, Kinds: []Kind{KInt, KString, KBool, KUint16, KEnum}, Capacities: []int{1, 64, 1024, 16385}})
		mc := NewMachine("C12", sch, column.Options{})
		defer mc.Close()
		defer mc.Guard(t)
		cfg := TxnCfg{Prop: "C12", MaxSteps: 8, Rollback: true, FailInsert: true, Deletes: true, Inserts: true, Merges: true, KeyOps: true, Direct: true,
			NoStoreOnDel: KFActive("f11-store-and-delete-same-txn"), NoOpAfterLenMerge: KFActive("f15-difflen-merge-reorder")}
		freed := map[string]bool{} // keys that were deleted or re-keyed away at some point
		interesting := false
		mc.OnTxn = func(spec TxnSpec, res []StepResult, committed bool, eff *TxnEffect) {
			perKey := map[string]int{}
			for i, st := range spec.Steps {
				if spec.FailAt >= 0 && i > spec.FailAt {
					break
				}
				switch st.Kind {
				case SInsertKey, SUpsertKey, SQueryKey, SDeleteKey, SSetKey:
					perKey[st.Key]++
					if perKey[st.Key] >= 2 && committed {
						interesting = true
						mc.flag(">=2-key-ops-on-one-key-in-one-txn")
					}
				}
				if committed && (st.Kind == SInsertKey || st.Kind == SUpsertKey || st.Kind == SSetKey) && freed[st.Key] && !res[i].Err {
					interesting = true
					mc.flag("freed-key-used-again")
				}
			}
		}
		step := func(t *rapid.T) {
			before := map[string]uint32{}
			for _, k := range keyAlphabet {
				if off, ok := mc.M.KeyOf(k); ok {
					before[k] = off
				}
			}
			mc.ActTxn(t, cfg)
			for k, off := range before {
				if now, ok := mc.M.KeyOf(k); !ok || now != off {
					freed[k] = true
				}
			}
			mc.CheckKeys(t)
			mc.checkNoDuplicateKeys(t)
		}
		t.Repeat(map[string]func(*rapid.T){
			"txn":  step,
			"txn2": step,
			"txn3": step,
			"prefill": func(t *rapid.T) {
				if len(mc.M.Rows) > 17000 {
					t.Skip("large enough")
				}
				n := rapid.SampledFrom([]int{1, 5, 64, 64, 16390}).Draw(t, "n")
				if n > 1000 && mc.bigPrefills >= 1 {
					n = 7
				}
				if n > 1000 {
					mc.bigPrefills++
				}
				mc.ActPrefill(t, n, nil, rapid.Uint64().Draw(t, "seed"))
				mc.CheckKeys(t)
			},
			"bulkDelete": func(t *rapid.T) {
				before := map[string]bool{}
				for _, k := range keyAlphabet {
					if _, ok := mc.M.KeyOf(k); ok {
						before[k] = true
					}
				}
				mc.ActBulkDelete(t)
				for k := range before {
					if _, ok := mc.M.KeyOf(k); !ok {
						freed[k] = true
					}
				}
				mc.CheckKeys(t)
			},
		})
		mc.CheckFull(t, false)
		mc.CheckKeys(t)
		mc.checkNoDuplicateKeys(t)
		RecordCase("C12", mc.Desc(), interesting, mc.Labels()...)
	})
}

// TestC12Parallel: concurrent key operations under real parallelism. Creating
// operations (InsertKey/UpsertKey) for a key are issued by its owner only, so
// known finding f17 (two creators of one absent key) is excluded by
// construction; everybody may QueryKey/DeleteKey/update any key. Oracle at
// quiescence: at most one live row per key, and for EVERY key of the alphabet a
// lookup succeeds iff exactly that row holds it; Count == live rows.
func TestC12Parallel(t *testing.T) {
	f26 := KFActive("f26-key-ops-act-on-stale-offset")
	rapid.Check(t, func(t *rapid.T) {
		workers := rapid.IntRange(2, 8).Draw(t, "workers")
		nkeys := rapid.IntRange(2, 12).Draw(t, "keys")
		ops := rapid.IntRange(50, 400).Draw(t, "ops")
		prefill := rapid.SampledFrom([]int{0, 0, 100, 16380}).Draw(t, "prefill")
		c := column.NewCollection(column.Options{Capacity: rapid.SampledFrom([]int{1, 64, 1024}).Draw(t, "capacity"), Vacuum: 24 * 3600 * 1e9})
		defer c.Close()
		c.CreateColumn("pk", column.ForKey())
		c.CreateColumn("n", column.ForInt())
		c.Query(func(txn *column.Txn) error {
			for i := 0; i < prefill; i++ {
				txn.InsertKey(fmt.Sprintf("pre%d", i), func(r column.Row) error { r.SetInt("n", i); return nil })
			}
			return nil
		})
		seeds := make([]uint32, workers)
		for i := range seeds {
			seeds[i] = uint32(rapid.IntRange(1, 1<<30).Draw(t, "seed"))
		}
		done := make(chan string, workers)
		for w := 0; w < workers; w++ {
			go func(w int) {
				msg := ""
				defer func() {
					if r := recover(); r != nil {
						msg = fmt.Sprintf("worker %d panicked: %v", w, r)
					}
					done <- msg
				}()
				x := seeds[w]
				for i := 0; i < ops; i++ {
					x = x*1664525 + 1013904223
					k := int(x>>8) % nkeys
					key := fmt.Sprintf("k%d", k)
					owner := k%workers == w
					if f26 && !owner {
						// known finding: key operations act on the offset they looked up; while it is
						// listed, a key is only touched by its owner (offsets are still shared and reused)
						CountExcluded("C12", "f26-key-ops-act-on-stale-offset")
						k = (k/workers)*workers + w
						if k >= nkeys {
							k = w % nkeys
							if k%workers != w {
								continue
							}
						}
						key = fmt.Sprintf("k%d", k)
						owner = true
					}
					switch (x >> 20) % 6 {
					case 0:
						if owner {
							c.InsertKey(key, func(r column.Row) error { r.SetInt("n", w); return nil })
						}
					case 1:
						if owner {
							c.UpsertKey(key, func(r column.Row) error { r.MergeInt("n", 1); return nil })
						}
					case 2:
						c.DeleteKey(key)
					case 3:
						c.QueryKey(key, func(r column.Row) error {
							if got, ok := r.Key(); ok && got != key {
								// the row under the cursor holds another key: only legal if it was re-used meanwhile; not judged here
								_ = got
							}
							r.MergeInt("n", 1)
							return nil
						})
					case 4:
						// delete a pre-filled row by key and re-insert it (offset reuse)
						if prefill > 0 {
							pk := fmt.Sprintf("pre%d", (int(x>>4)%prefill/workers)*workers+w)
							if c.DeleteKey(pk) == nil {
								c.InsertKey(pk, func(r column.Row) error { return nil })
							}
						}
					default:
						c.QueryKey(key, func(r column.Row) error { r.Int("n"); return nil })
					}
				}
			}(w)
		}
		for w := 0; w < workers; w++ {
			if msg := <-done; msg != "" {
				t.Fatalf("C12 violated (free-parallel run): %s", msg)
			}
		}
		// quiescent consistency
		holders := map[string][]uint32{}
		rows := 0
		c.Query(func(txn *column.Txn) error {
			key := txn.Key()
			return txn.Range(func(idx uint32) {
				rows++
				if k, ok := key.Get(); ok {
					holders[k] = append(holders[k], idx)
				}
			})
		})
		if c.Count() != rows {
			t.Fatalf("C12 violated (free-parallel run): Count()=%d, %d rows are visible", c.Count(), rows)
		}
		all := map[string]bool{}
		for k := range holders {
			all[k] = true
		}
		for k := 0; k < nkeys; k++ {
			all[fmt.Sprintf("k%d", k)] = true
		}
		for i := 0; i < prefill; i += 97 {
			all[fmt.Sprintf("pre%d", i)] = true
		}
		contended := 0
		for k := range all {
			hs := holders[k]
			if len(hs) > 1 {
				t.Fatalf("C12 violated (free-parallel run): %d live rows %v hold key %q (only its owner ever created it); workers=%d keys=%d", len(hs), hs, k, workers, nkeys)
			}
			var at uint32
			ran := false
			err := c.QueryKey(k, func(r column.Row) error { ran, at = true, r.Index(); return nil })
			switch {
			case len(hs) == 0 && (err == nil || ran):
				t.Fatalf("C12 violated (free-parallel run): no live row holds key %q but QueryKey reached row %d; workers=%d keys=%d", k, at, workers, nkeys)
			case len(hs) == 1 && (err != nil || at != hs[0]):
				t.Fatalf("C12 violated (free-parallel run): row %d holds key %q but QueryKey answered err=%v row=%d; workers=%d keys=%d", hs[0], k, err, at, workers, nkeys)
			}
			if len(hs) == 1 {
				contended++
			}
		}
		RecordCase("C12", fmt.Sprintf("free-parallel workers=%d keys=%d ops=%d prefill=%d", workers, nkeys, ops, prefill), workers >= 2 && nkeys <= 2*workers, "free-parallel")
	})
}
