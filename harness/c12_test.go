package harness

import (
	"testing"

	"github.com/kelindar/column"
	"pgregory.net/rapid"
)

// ---------------------------------------------------------------------------
// C12 — primary keys behave like a map from key to one row
// ---------------------------------------------------------------------------

// checkNoDuplicateKeys scans the collection: no two live rows may share a key.
func (mc *Machine) checkNoDuplicateKeys(t *rapid.T) {
	seen := map[string]uint32{}
	dup := ""
	var a, b uint32
	mc.C.Query(func(txn *column.Txn) error {
		key := txn.Key()
		return txn.Range(func(idx uint32) {
			if k, ok := key.Get(); ok {
				if prev, was := seen[k]; was && dup == "" {
					dup, a, b = k, prev, idx
				}
				seen[k] = idx
			}
		})
	})
	if dup != "" || a != b {
		mc.fail(t, "two live rows (%d and %d) hold key %q", a, b, dup)
	}
}

func TestC12(t *testing.T) {
	rapid.Check(t, func(t *rapid.T) {
		sch := genSchema(t, SchemaCfg{Key: 2, MinCols: 1, MaxCols: 3, Kinds: []Kind{KInt, KString, KBool, KUint16, KEnum}, Capacities: []int{1, 64, 1024, 16385}})
		mc := NewMachine("C12", sch, column.Options{})
		defer mc.Close()
		defer mc.Guard(t)
		cfg := TxnCfg{Prop: "C12", MaxSteps: 8, Rollback: true, FailInsert: true, Deletes: true, Inserts: true, Merges: true, KeyOps: true, Direct: true,
			NoStoreOnDel: KFActive("f11-store-and-delete-same-txn"), NoOpAfterLenMerge: KFActive("f15-difflen-merge-reorder")}
		freed := map[string]bool{} // keys that were deleted or re-keyed away at some point
		interesting := false
		mc.OnTxn = func(spec TxnSpec, res []StepResult, committed bool, eff *TxnEffect) {
			perKey := map[string]int{}
			for i, st := range spec.Steps {
				if spec.FailAt >= 0 && i > spec.FailAt {
					break
				}
				switch st.Kind {
				case SInsertKey, SUpsertKey, SQueryKey, SDeleteKey, SSetKey:
					perKey[st.Key]++
					if perKey[st.Key] >= 2 && committed {
						interesting = true
						mc.flag(">=2-key-ops-on-one-key-in-one-txn")
					}
				}
				if committed && (st.Kind == SInsertKey || st.Kind == SUpsertKey || st.Kind == SSetKey) && freed[st.Key] && !res[i].Err {
					interesting = true
					mc.flag("freed-key-used-again")
				}
			}
		}
		step := func(t *rapid.T) {
			before := map[string]uint32{}
			for _, k := range keyAlphabet {
				if off, ok := mc.M.KeyOf(k); ok {
					before[k] = off
				}
			}
			mc.ActTxn(t, cfg)
			for k, off := range before {
				if now, ok := mc.M.KeyOf(k); !ok || now != off {
					freed[k] = true
				}
			}
			mc.CheckKeys(t)
			mc.checkNoDuplicateKeys(t)
		}
		t.Repeat(map[string]func(*rapid.T){
			"txn":  step,
			"txn2": step,
			"txn3": step,
			"prefill": func(t *rapid.T) {
				if len(mc.M.Rows) > 17000 {
					t.Skip("large enough")
				}
				n := rapid.SampledFrom([]int{1, 5, 64, 64, 16390}).Draw(t, "n")
				if n > 1000 && mc.bigPrefills >= 1 {
					n = 7
				}
				if n > 1000 {
					mc.bigPrefills++
				}
				mc.ActPrefill(t, n, nil, rapid.Uint64().Draw(t, "seed"))
				mc.CheckKeys(t)
			},
			"bulkDelete": func(t *rapid.T) {
				before := map[string]bool{}
				for _, k := range keyAlphabet {
					if _, ok := mc.M.KeyOf(k); ok {
						before[k] = true
					}
				}
				mc.ActBulkDelete(t)
				for k := range before {
					if _, ok := mc.M.KeyOf(k); !ok {
						freed[k] = true
					}
				}
				mc.CheckKeys(t)
			},
		})
		mc.CheckFull(t, false)
		mc.CheckKeys(t)
		mc.checkNoDuplicateKeys(t)
		RecordCase("C12", mc.Desc(), interesting, mc.Labels()...)
	})
}
