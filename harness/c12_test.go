package harness

import (
	"fmt"
	"sort"
	"testing"

	"github.com/kelindar/column"
	"pgregory.net/rapid"
)

// ---------------------------------------------------------------------------
// C12 — primary keys behave like a map from key to one row
// ---------------------------------------------------------------------------

// checkNoDuplicateKeys scans the collection: no two live rows may share a key.
func (mc *Machine) checkNoDuplicateKeys(t *rapid.T) {
	seen := map[string]uint32{}
	dup := ""
	var a, b uint32
	mc.C.Query(func(txn *column.Txn) error {
		key := txn.Key()
		return txn.Range(func(idx uint32) {
			if k, ok := key.Get(); ok {
				if prev, was := seen[k]; was && dup == "" {
					dup, a, b = k, prev, idx
				}
				seen[k] = idx
			}
		})
	})
	if dup != "" || a != b {
		mc.fail(t, "two live rows (%d and %d) hold key %q", a, b, dup)
	}
}

func TestC12(t *testing.T) {
	rapid.Check(t, func(t *rapid.T) {
		sch := genSchema(t, SchemaCfg{Key: 2, MinCols: 1, MaxCols: 3, Kinds: []Kind{KInt, KString, KBool, KUint16, KEnum}, Capacities: []int{1, 64, 1024, 16385}})
		slog := &recLogger{}
		mc := NewMachine("C12", sch, column.Options{Writer: slog})
		defer mc.Close()
		defer mc.Guard(t)
		if rapid.IntRange(0, 7).Draw(t, "start-after-failed-restore") == 0 {
			mc.ActFailedRestore(t)
		}
		// a stream follower: key lookups must behave like a map there as well
		follower := newCollection(sch, column.Options{})
		defer follower.Close()
		fed := 0
		follow := func(t *rapid.T, what string) {
			for _, rc := range slog.Since(fed) {
				cl := rc.Clone.Clone()
				cl.ID = rc.ID
				if err := follower.Replay(cl); err != nil {
					mc.fail(t, "Replay of commit #%d on the stream follower: %v", rc.Seq, err)
				}
				fed++
			}
			mc.CheckDerived(t, follower, "collection that replays the change stream ("+what+")", false)
		}
		cfg := TxnCfg{Prop: "C12", MaxSteps: 8, Peeks: true, Rollback: true, FailInsert: true, Deletes: true, Inserts: true, Merges: true, KeyOps: true, Direct: true,
			NoStoreOnDel: KFActive("f11-store-and-delete-same-txn"), NoOpAfterLenMerge: KFActive("f15-difflen-merge-reorder")}
		freed := map[string]bool{} // keys that were deleted or re-keyed away at some point
		interesting := false
		mc.OnTxn = func(spec TxnSpec, res []StepResult, committed bool, eff *TxnEffect) {
			perKey := map[string]int{}
			for i, st := range spec.Steps {
				if spec.FailAt >= 0 && i > spec.FailAt {
					break
				}
				switch st.Kind {
				case SInsertKey, SUpsertKey, SQueryKey, SDeleteKey, SSetKey:
					perKey[st.Key]++
					if perKey[st.Key] >= 2 && committed {
						interesting = true
						mc.flag(">=2-key-ops-on-one-key-in-one-txn")
					}
				}
				if committed && (st.Kind == SInsertKey || st.Kind == SUpsertKey || st.Kind == SSetKey) && freed[st.Key] && !res[i].Err {
					interesting = true
					mc.flag("freed-key-used-again")
				}
			}
		}
		step := func(t *rapid.T) {
			before := map[string]uint32{}
			for _, k := range keyAlphabet {
				if off, ok := mc.M.KeyOf(k); ok {
					before[k] = off
				}
			}
			mc.ActTxn(t, cfg)
			for k, off := range before {
				if now, ok := mc.M.KeyOf(k); !ok || now != off {
					freed[k] = true
				}
			}
			mc.CheckKeys(t)
			mc.checkNoDuplicateKeys(t)
			if len(mc.M.Rows) <= 300 && rapid.IntRange(0, 3).Draw(t, "check-follower") == 0 {
				follow(t, "intermediate point")
			}
		}
		t.Repeat(map[string]func(*rapid.T){
			"txn":  step,
			"txn2": step,
			"txn3": step,
			"prefill": func(t *rapid.T) {
				if len(mc.M.Rows) > 17000 {
					t.Skip("large enough")
				}
				n := rapid.SampledFrom([]int{1, 5, 64, 64, 16390}).Draw(t, "n")
				if n > 1000 && mc.bigPrefills >= 1 {
					n = 7
				}
				if n > 1000 {
					mc.bigPrefills++
				}
				mc.ActPrefill(t, n, nil, rapid.Uint64().Draw(t, "seed"))
				mc.CheckKeys(t)
			},
			"secondKeyColumn": func(t *rapid.T) {
				// a second key column is refused; whatever the attempt left behind is dropped again -
				// the collection's real key must be unimpressed
				err := mc.C.CreateColumn("pk2", column.ForKey())
				if err == nil {
					mc.fail(t, "CreateColumn of a second key column succeeded")
				}
				mc.C.DropColumn("pk2")
				mc.logf("CreateColumn(pk2, ForKey()) refused (%v), DropColumn(pk2)", err)
				mc.flag("second-key-column-attempt")
				mc.CheckKeys(t)
			},
			"bulkDelete": func(t *rapid.T) {
				before := map[string]bool{}
				for _, k := range keyAlphabet {
					if _, ok := mc.M.KeyOf(k); ok {
						before[k] = true
					}
				}
				mc.ActBulkDelete(t)
				for k := range before {
					if _, ok := mc.M.KeyOf(k); !ok {
						freed[k] = true
					}
				}
				mc.CheckKeys(t)
			},
		})
		mc.CheckFull(t, false)
		mc.CheckKeys(t)
		mc.checkNoDuplicateKeys(t)
		follow(t, "at the end")
		RecordCase("C12", mc.Desc(), interesting, mc.Labels()...)
	})
}

// TestC12Parallel: concurrent key operations under real parallelism. Creating
// operations (InsertKey/UpsertKey) for a key are issued by its owner only, so
// known finding f17 (two creators of one absent key) is excluded by
// construction; everybody may QueryKey/DeleteKey/update any key. Oracle at
// quiescence: at most one live row per key, and for EVERY key of the alphabet a
// lookup succeeds iff exactly that row holds it; Count == live rows.
func TestC12Parallel(t *testing.T) {
	f26 := KFActive("f26-key-ops-act-on-stale-offset")
	rapid.Check(t, func(t *rapid.T) {
		workers := rapid.IntRange(2, 8).Draw(t, "workers")
		nkeys := rapid.IntRange(2, 12).Draw(t, "keys")
		ops := rapid.IntRange(50, 400).Draw(t, "ops")
		prefill := rapid.SampledFrom([]int{0, 0, 100, 16380}).Draw(t, "prefill")
		c := column.NewCollection(column.Options{Capacity: rapid.SampledFrom([]int{1, 64, 1024}).Draw(t, "capacity"), Vacuum: 24 * 3600 * 1e9})
		defer c.Close()
		c.CreateColumn("pk", column.ForKey())
		c.CreateColumn("n", column.ForInt())
		c.Query(func(txn *column.Txn) error {
			for i := 0; i < prefill; i++ {
				txn.InsertKey(fmt.Sprintf("pre%d", i), func(r column.Row) error { r.SetInt("n", i); return nil })
			}
			return nil
		})
		seeds := make([]uint32, workers)
		for i := range seeds {
			seeds[i] = uint32(rapid.IntRange(1, 1<<30).Draw(t, "seed"))
		}
		done := make(chan string, workers)
		for w := 0; w < workers; w++ {
			go func(w int) {
				msg := ""
				defer func() {
					if r := recover(); r != nil {
						msg = fmt.Sprintf("worker %d panicked: %v", w, r)
					}
					done <- msg
				}()
				x := seeds[w]
				for i := 0; i < ops; i++ {
					x = x*1664525 + 1013904223
					k := int(x>>8) % nkeys
					key := fmt.Sprintf("k%d", k)
					owner := k%workers == w
					if f26 && !owner {
						// known finding: key operations act on the offset they looked up; while it is
						// listed, a key is only touched by its owner (offsets are still shared and reused)
						CountExcluded("C12", "f26-key-ops-act-on-stale-offset")
						k = (k/workers)*workers + w
						if k >= nkeys {
							k = w % nkeys
							if k%workers != w {
								continue
							}
						}
						key = fmt.Sprintf("k%d", k)
						owner = true
					}
					switch (x >> 20) % 6 {
					case 0:
						if owner {
							c.InsertKey(key, func(r column.Row) error { r.SetInt("n", w); return nil })
						}
					case 1:
						if owner {
							c.UpsertKey(key, func(r column.Row) error { r.MergeInt("n", 1); return nil })
						}
					case 2:
						c.DeleteKey(key)
					case 3:
						c.QueryKey(key, func(r column.Row) error {
							if got, ok := r.Key(); ok && got != key {
								// the row under the cursor holds another key: only legal if it was re-used meanwhile; not judged here
								_ = got
							}
							r.MergeInt("n", 1)
							return nil
						})
					case 4:
						// delete a pre-filled row by key and re-insert it (offset reuse)
						if prefill > 0 {
							pk := fmt.Sprintf("pre%d", (int(x>>4)%prefill/workers)*workers+w)
							if c.DeleteKey(pk) == nil {
								c.InsertKey(pk, func(r column.Row) error { return nil })
							}
						}
					default:
						c.QueryKey(key, func(r column.Row) error { r.Int("n"); return nil })
					}
				}
			}(w)
		}
		for w := 0; w < workers; w++ {
			if msg := <-done; msg != "" {
				t.Fatalf("C12 violated (free-parallel run): %s", msg)
			}
		}
		// quiescent consistency
		holders := map[string][]uint32{}
		rows := 0
		c.Query(func(txn *column.Txn) error {
			key := txn.Key()
			return txn.Range(func(idx uint32) {
				rows++
				if k, ok := key.Get(); ok {
					holders[k] = append(holders[k], idx)
				}
			})
		})
		if c.Count() != rows {
			t.Fatalf("C12 violated (free-parallel run): Count()=%d, %d rows are visible", c.Count(), rows)
		}
		all := map[string]bool{}
		for k := range holders {
			all[k] = true
		}
		for k := 0; k < nkeys; k++ {
			all[fmt.Sprintf("k%d", k)] = true
		}
		for i := 0; i < prefill; i += 97 {
			all[fmt.Sprintf("pre%d", i)] = true
		}
		contended := 0
		for k := range all {
			hs := holders[k]
			if len(hs) > 1 {
				t.Fatalf("C12 violated (free-parallel run): %d live rows %v hold key %q (only its owner ever created it); workers=%d keys=%d", len(hs), hs, k, workers, nkeys)
			}
			var at uint32
			ran := false
			err := c.QueryKey(k, func(r column.Row) error { ran, at = true, r.Index(); return nil })
			switch {
			case len(hs) == 0 && (err == nil || ran):
				t.Fatalf("C12 violated (free-parallel run): no live row holds key %q but QueryKey reached row %d; workers=%d keys=%d", k, at, workers, nkeys)
			case len(hs) == 1 && (err != nil || at != hs[0]):
				t.Fatalf("C12 violated (free-parallel run): row %d holds key %q but QueryKey answered err=%v row=%d; workers=%d keys=%d", hs[0], k, err, at, workers, nkeys)
			}
			if len(hs) == 1 {
				contended++
			}
		}
		RecordCase("C12", fmt.Sprintf("free-parallel workers=%d keys=%d ops=%d prefill=%d", workers, nkeys, ops, prefill), workers >= 2 && nkeys <= 2*workers, "free-parallel")
	})
}

// TestC12Interleaved: a second "transaction stream" B commits single key
// operations INSIDE the body of transaction A, between A's steps (same
// goroutine, no lock is held there) - a deterministic stand-in for a concurrent
// writer. B only creates fresh keys ("b<n>") and updates rows, it never deletes or
// re-keys, so nothing A has looked up goes stale (finding f26 is not touched) and
// no absent key gets two creators (finding f17). A may use B's keys once they
// exist. Oracle: every step's outcome against the committed table at issue time;
// after A commits (or rolls back) the reference map.
func TestC12Interleaved(t *testing.T) {
	rapid.Check(t, func(t *rapid.T) {
		sch := genSchema(t, SchemaCfg{Key: 2, MinCols: 1, MaxCols: 2, Kinds: []Kind{KInt, KString, KBool}, Capacities: []int{1, 64, 1024}})
		mc := NewMachine("C12", sch, column.Options{})
		defer mc.Close()
		defer mc.Guard(t)
		cfg := TxnCfg{Prop: "C12", MaxSteps: 6, Peeks: true, Rollback: true, Deletes: true, Inserts: true, Merges: true, KeyOps: true,
			NoStoreOnDel: KFActive("f11-store-and-delete-same-txn"), NoOpAfterLenMerge: KFActive("f15-difflen-merge-reorder")}
		bSeq := 0
		var bKeys []string
		interleavings := 0
		step := func(t *rapid.T) {
			spec := genTxn(t, mc.M, mc.Recent, cfg)
			// let some of A's key steps aim at keys B created earlier
			for i := range spec.Steps {
				st := &spec.Steps[i]
				if len(bKeys) > 0 && (st.Kind == SQueryKey || st.Kind == SDeleteKey) && rapid.IntRange(0, 2).Draw(t, "use-b-key") == 0 {
					st.Key = bKeys[rapid.IntRange(0, len(bKeys)-1).Draw(t, "b-key")]
					st.Fail = false
				}
			}
			// B's operations, by the step of A after which they run
			bOps := map[int][]Step{}
			for i := range spec.Steps {
				if spec.FailAt >= 0 && i > spec.FailAt {
					break
				}
				if rapid.IntRange(0, 2).Draw(t, "b-here") == 0 {
					bSeq++
					bOps[i] = append(bOps[i], Step{Kind: SInsertKey, Key: fmt.Sprintf("b%d", bSeq), Stores: genStores(t, mc.M, cfg, 0, 2, "b-ins")})
				}
			}
			// A's later QueryKey/DeleteKey steps may aim at a key B creates earlier IN THIS transaction
			for i := range spec.Steps {
				st := &spec.Steps[i]
				if st.Kind != SQueryKey && st.Kind != SDeleteKey {
					continue
				}
				var cands []string
				for j, ops := range bOps {
					if j < i {
						for _, b := range ops {
							cands = append(cands, b.Key)
						}
					}
				}
				sort.Strings(cands)
				if len(cands) > 0 && rapid.IntRange(0, 1).Draw(t, "use-fresh-b-key") == 0 {
					st.Key = cands[rapid.IntRange(0, len(cands)-1).Draw(t, "fresh-b-key")]
					st.Fail = false
				}
			}
			mc.logf("A: %s  with B's commits interleaved after steps %v", sch.renderTxn(spec), sortedKeys(bOps))
			res := make([]StepResult, len(spec.Steps))
			var verr error
			_, err := execTxnObs(mc.C, sch, mc.M.ColLive, spec, func(i int, txn *column.Txn, r []StepResult) {
				copy(res, r)
				// A's step i against the committed table right now
				if verr == nil {
					_, verr = mc.M.CheckAndApply(TxnSpec{Steps: []Step{spec.Steps[i]}, FailAt: -1}, []StepResult{r[i]}, false)
				}
				for _, b := range bOps[i] {
					bspec := TxnSpec{Steps: []Step{b}, FailAt: -1}
					bres, berr, _ := execDirect(mc.C, sch, mc.M.ColLive, bspec)
					if berr != nil && verr == nil {
						verr = fmt.Errorf("B's %s failed: %v", sch.renderStep(b), berr)
					}
					if _, e := mc.M.CheckAndApply(bspec, bres, true); e != nil && verr == nil {
						verr = fmt.Errorf("B's %s (committed while A is in flight): %v", sch.renderStep(b), e)
					}
					bKeys = append(bKeys, b.Key)
					mc.logf("  B after A's step %d: %s -> row %d", i, sch.renderStep(b), bres[0].Offset)
					interleavings++
				}
			})
			if verr != nil {
				mc.fail(t, "%v", verr)
			}
			committed := err == nil
			if (spec.FailAt >= 0) == committed {
				mc.fail(t, "Query returned err=%v for a body that returned error=%v", err, spec.FailAt >= 0)
			}
			// SOwnUpdate steps are not generated with KeyOps-only configs that need res of earlier steps; apply A as a whole
			if _, e := mc.M.CheckAndApply(spec, res, committed); e != nil {
				mc.fail(t, "%v", e)
			}
			mc.CheckCount(t)
			mc.CheckKeys(t, bKeys...)
			mc.checkNoDuplicateKeys(t)
			if len(mc.M.Rows) <= 300 {
				mc.CheckFull(t, false)
			}
		}
		t.Repeat(map[string]func(*rapid.T){"txn": step})
		RecordCase("C12", mc.Desc(), interleavings > 0, "interleaved-writer")
	})
}

func sortedKeys(m map[int][]Step) []int {
	var out []int
	for k := range m {
		out = append(out, k)
	}
	sort.Ints(out)
	return out
}
