package harness

import (
	"fmt"
	"strings"
	"testing"

	"github.com/kelindar/column"
	"pgregory.net/rapid"
)

// ---------------------------------------------------------------------------
// C16 — sorted-index iteration is complete and ordered
// ---------------------------------------------------------------------------

var c16Alphabet = []string{"", "a", "a", "b", "ab", "c"}

// checkAscend runs Ascend over a selection and compares with the model.
// filter: 0 none, 1 With(bitmap index), 2 Without(bitmap index), 3 WithString predicate, 4 With(column)
func (mc *Machine) checkAscend(t *rapid.T, sortName string, col int, filter int, ix *IndexSpec, what string) (dupVisited bool) {
	sel := map[uint32]bool{}
	for off := range mc.M.Rows {
		sel[off] = true
	}
	var chain []qOp
	if filter == 5 {
		// an arbitrary filter chain from the C04 grammar, evaluated by the C04 set-algebra model
		save := mc.Indexes
		mc.Indexes = []*IndexState{{Spec: *ix}}
		chain = mc.sanitizeQuery(mc.genQuery(t), KFActive("f14-withunion-single-widens"), KFActive("f25-union-after-missing-name"), "C16")
		for i, o := range chain {
			sel = mc.applyModel(sel, o, i == 0)
		}
		mc.Indexes = save
		var parts []string
		for _, o := range chain {
			parts = append(parts, o.String())
		}
		what += " after " + strings.Join(parts, ".")
	}
	var ixSet map[uint32]bool
	if ix != nil {
		ixSet = mc.modelIndex(*ix)
	}
	switch filter {
	case 1:
		for off := range sel {
			if !ixSet[off] {
				delete(sel, off)
			}
		}
	case 2:
		for off := range sel {
			if ixSet[off] {
				delete(sel, off)
			}
		}
	case 3:
		for off := range sel {
			c := mc.M.Rows[off][col]
			if !c.Has || len(c.V.S) > 1 {
				delete(sel, off)
			}
		}
	case 4:
		for off := range sel {
			if !mc.M.Rows[off][col].Has {
				delete(sel, off)
			}
		}
	}
	want := map[uint32]bool{}
	for off := range sel {
		if mc.M.Rows[off][col].Has {
			want[off] = true
		}
	}
	type visit struct {
		off uint32
		val string
		ok  bool
	}
	var visits []visit
	name := mc.Sch.Cols[col].Name
	err := mc.C.Query(func(txn *column.Txn) error {
		switch filter {
		case 1:
			txn.With(ix.Name)
		case 2:
			txn.Without(ix.Name)
		case 3:
			txn.WithString(name, func(v string) bool { return len(v) <= 1 })
		case 4:
			txn.With(name)
		case 5:
			for _, o := range chain {
				mc.applySUT(txn, o)
			}
		}
		rd := txn.String(name)
		return txn.Ascend(sortName, func(idx uint32) {
			v, ok := rd.Get()
			if txn.Index() != idx {
				ok = false
			}
			visits = append(visits, visit{idx, v, ok})
		})
	})
	if err != nil {
		mc.fail(t, "%s: Ascend(%s): %v", what, sortName, err)
	}
	got := map[uint32]bool{}
	prev := ""
	counts := map[string]int{}
	for i, v := range visits {
		if got[v.off] {
			mc.fail(t, "%s: Ascend visits row %d twice", what, v.off)
		}
		got[v.off] = true
		w, live := mc.M.Rows[v.off]
		if !live {
			mc.fail(t, "%s: Ascend visits row %d, which is not live", what, v.off)
		}
		if !v.ok || !w[col].Has || v.val != w[col].V.S {
			mc.fail(t, "%s: Ascend visits row %d where the reader returns %q,%v; the row's value is %s", what, v.off, v.val, v.ok, renderCell(KString, w[col]))
		}
		if i > 0 && v.val < prev {
			mc.fail(t, "%s: Ascend is not in non-decreasing order: %q (row %d) after %q", what, v.val, v.off, prev)
		}
		prev = v.val
		counts[v.val]++
		if counts[v.val] >= 2 {
			dupVisited = true
		}
	}
	if d := diffSets(got, want); d != "" {
		mc.fail(t, "%s: Ascend(%s) with filter %d %s", what, sortName, filter, d)
	}
	return dupVisited
}

func TestC16(t *testing.T) {
	rapid.Check(t, func(t *rapid.T) {
		sch := &Schema{Capacity: rapid.SampledFrom([]int{1, 64, 1024, 16385}).Draw(t, "capacity"), Key: -1}
		merge := rapid.SampledFrom([]MergeKind{MDefault, MMix, MConcat}).Draw(t, "merge")
		sch.Cols = []ColSpec{{Name: "expire", Kind: KInt64}, {Name: "s", Kind: KString, Merge: merge}, {Name: "n", Kind: KInt}}
		mc := NewMachine("C16", sch, column.Options{})
		defer mc.Close()
		defer mc.Guard(t)
		cfg := TxnCfg{Prop: "C16", MaxSteps: 8, Peeks: true, Rollback: true, Deletes: true, Inserts: true, Merges: true, OwnUpdates: true, Direct: true,
			NoStoreOnDel: KFActive("f11-store-and-delete-same-txn"), NoOpAfterLenMerge: KFActive("f15-difflen-merge-reorder"), StringAlphabet: c16Alphabet}
		const sCol = 1
		sortName := ""
		nsort := 0
		dupAfterChange := false
		changedSinceIndex := false
		ixSpec := IndexSpec{Name: "ix_n", Col: 2, Pred: PEven}
		if err := mc.createIndexOn(mc.C, ixSpec); err != nil {
			t.Fatal(err)
		}
		check := func(t *rapid.T, what string) {
			if sortName == "" {
				return
			}
			filter := rapid.IntRange(0, 5).Draw(t, "filter")
			if mc.checkAscend(t, sortName, sCol, filter, &ixSpec, what) && changedSinceIndex {
				dupAfterChange = true
				mc.flag("duplicates-visited-after-overwrite/delete")
			}
			if filter != 0 {
				mc.checkAscend(t, sortName, sCol, 0, &ixSpec, what)
			}
		}
		t.Repeat(map[string]func(*rapid.T){
			"txn": func(t *rapid.T) {
				eff, committed := mc.ActTxn(t, cfg)
				if committed && sortName != "" && (len(eff.Deleted) > 0 || len(eff.Touched) > len(eff.Inserted)) {
					changedSinceIndex = true
				}
				check(t, "after a transaction")
			},
			"txn2": func(t *rapid.T) {
				eff, committed := mc.ActTxn(t, cfg)
				if committed && sortName != "" && (len(eff.Deleted) > 0 || len(eff.Touched) > len(eff.Inserted)) {
					changedSinceIndex = true
				}
				check(t, "after a transaction")
			},
			"prefill": func(t *rapid.T) {
				if len(mc.M.Rows) > 17000 {
					t.Skip("large enough")
				}
				n := rapid.SampledFrom([]int{3, 10, 64, 16390}).Draw(t, "n")
				if n > 1000 && mc.bigPrefills >= 1 {
					n = 9
				}
				if n > 1000 {
					mc.bigPrefills++
				}
				mc.ActPrefill(t, n, []int{1, 2}, rapid.Uint64().Draw(t, "seed"))
				check(t, "after prefill")
			},
			"bulkDelete": func(t *rapid.T) {
				mc.ActBulkDelete(t)
				if sortName != "" {
					changedSinceIndex = true
				}
				check(t, "after bulk delete")
			},
			"createSortIndex": func(t *rapid.T) {
				if sortName != "" {
					t.Skip("exists")
				}
				// a fresh name, or (half of the time) the name of the index that was dropped last
				if nsort == 0 || rapid.Bool().Draw(t, "fresh-name") {
					nsort++
				} else {
					mc.flag("sort-index-name-reused")
				}
				sortName = fmt.Sprintf("sorted%d", nsort)
				mc.logf("createSortIndex %s on s (rows=%d)", sortName, len(mc.M.Rows))
				if err := mc.C.CreateSortIndex(sortName, "s"); err != nil {
					mc.fail(t, "CreateSortIndex: %v", err)
				}
				changedSinceIndex = false
				if len(mc.M.Rows) > 0 {
					mc.flag("sort-index-after-data")
				}
				check(t, "after CreateSortIndex")
			},
			"dropSortIndex": func(t *rapid.T) {
				if sortName == "" {
					t.Skip("none")
				}
				if rapid.IntRange(0, 2).Draw(t, "drop-with-DropColumn") == 0 {
					// DropColumn "removes the column (or an index) with the specified name"
					mc.logf("dropColumn %s (the sort index)", sortName)
					mc.C.DropColumn(sortName)
					mc.flag("sort-index-dropped-with-DropColumn")
				} else {
					mc.logf("dropIndex %s", sortName)
					if err := mc.C.DropIndex(sortName); err != nil {
						mc.fail(t, "DropIndex(%s): %v", sortName, err)
					}
				}
				sortName = ""
			},
		})
		if sortName == "" {
			if nsort == 0 {
				nsort = 1
			}
			sortName = fmt.Sprintf("sorted%d", nsort)
			mc.logf("createSortIndex %s on s (rows=%d) [final]", sortName, len(mc.M.Rows))
			if err := mc.C.CreateSortIndex(sortName, "s"); err != nil {
				mc.fail(t, "CreateSortIndex: %v", err)
			}
		}
		for f := 0; f <= 4; f++ {
			mc.checkAscend(t, sortName, sCol, f, &ixSpec, "at the end")
		}
		mc.CheckFull(t, false)
		RecordCase("C16", mc.Desc(), dupAfterChange, mc.Labels()...)
	})
}

// TestC16Parallel: a sort index is created WHILE writers commit (re-keying rows to values of
// a small alphabet, deleting and re-inserting rows of their own); once everything is quiet,
// Ascend must visit exactly the rows that hold a value, each once, in non-decreasing order of
// their CURRENT values. Evaluated at quiescence only (schedule-independent).
func TestC16Parallel(t *testing.T) {
	rapid.Check(t, func(t *rapid.T) {
		blocks := rapid.IntRange(2, 4).Draw(t, "blocks")
		writers := rapid.IntRange(1, 4).Draw(t, "writers")
		c := column.NewCollection(column.Options{Capacity: 1024, Vacuum: 24 * 3600 * 1e9})
		defer c.Close()
		c.CreateColumn("s", column.ForString())
		c.CreateColumn("w", column.ForInt())
		n := (blocks-1)*16384 + 300
		alphabet := []string{"a", "b", "b", "c", "d", "", "zz"}
		c.Query(func(txn *column.Txn) error {
			for i := 0; i < n; i++ {
				txn.Insert(func(r column.Row) error {
					r.SetInt("w", i%writers)
					if i%11 != 0 { // some rows hold no value
						r.SetString("s", alphabet[i%len(alphabet)])
					}
					return nil
				})
			}
			return nil
		})
		stop := make(chan struct{})
		done := make(chan string, writers)
		for w := 0; w < writers; w++ {
			go func(w int) {
				msg := ""
				defer func() {
					if p := recover(); p != nil {
						msg = fmt.Sprintf("writer panicked: %v", p)
					}
					done <- msg
				}()
				x := uint32(w*7919 + 1)
				for i := 0; ; i++ {
					select {
					case <-stop:
						return
					default:
					}
					x = x*1664525 + 1013904223
					// a writer only touches rows it owns (offset % writers == w), mostly in the first block
					row := (x >> 8) % uint32(n)
					if i%2 == 0 {
						row %= 400
					}
					row -= row % uint32(writers)
					row += uint32(w)
					if int(row) >= n {
						continue
					}
					switch i % 7 {
					case 3:
						c.DeleteAt(row) // the offset may be re-used by anybody's insert below
					case 5:
						c.Insert(func(r column.Row) error { r.SetInt("w", w); r.SetString("s", alphabet[i%len(alphabet)]); return nil })
					default:
						c.QueryAt(row, func(r column.Row) error {
							if _, live := r.Int("w"); live { // deleted rows are left alone
								r.SetString("s", alphabet[int(x>>5)%len(alphabet)])
							}
							return nil
						})
					}
				}
			}(w)
		}
		for k := 0; k < 2; k++ {
			if err := c.CreateSortIndex("sorted", "s"); err != nil {
				t.Fatalf("CreateSortIndex: %v", err)
			}
			if k == 0 {
				c.DropIndex("sorted")
			}
		}
		close(stop)
		for w := 0; w < writers; w++ {
			if msg := <-done; msg != "" {
				t.Fatalf("C16 violated (sort index created while %d writers were committing): %s", writers, msg)
			}
		}
		want := map[uint32]string{}
		c.Query(func(txn *column.Txn) error {
			s := txn.String("s")
			return txn.Range(func(idx uint32) {
				if v, ok := s.Get(); ok {
					want[idx] = v
				}
			})
		})
		seen := map[uint32]bool{}
		prev, first := "", true
		bad := ""
		c.Query(func(txn *column.Txn) error {
			s := txn.String("s")
			return txn.Ascend("sorted", func(idx uint32) {
				v, ok := s.Get()
				switch {
				case bad != "":
				case seen[idx]:
					bad = fmt.Sprintf("row %d is visited twice", idx)
				case !ok:
					bad = fmt.Sprintf("row %d is visited but holds no value", idx)
				case !first && v < prev:
					bad = fmt.Sprintf("row %d (%q) is visited after a row holding %q: not in non-decreasing order of the current values", idx, v, prev)
				}
				seen[idx] = true
				prev, first = v, false
			})
		})
		if bad == "" {
			for idx, v := range want {
				if !seen[idx] {
					bad = fmt.Sprintf("row %d holds %q but is never visited (%d of %d rows visited)", idx, v, len(seen), len(want))
					break
				}
			}
		}
		if bad != "" {
			t.Fatalf("C16 violated (sort index created while %d writers were committing, %d blocks; judged at quiescence): %s", writers, blocks, bad)
		}
		RecordCase("C16", fmt.Sprintf("parallel sort index creation: blocks=%d writers=%d rows=%d", blocks, writers, len(want)), true, "sort-index-created-under-writers")
	})
}
