module verifharness

go 1.23

require (
	github.com/kelindar/column v0.0.0
	github.com/klauspost/compress v1.16.6
	pgregory.net/rapid v1.3.0
)

require (
	github.com/kelindar/bitmap v1.4.1 // indirect
	github.com/kelindar/intmap v1.1.0 // indirect
	github.com/kelindar/iostream v1.3.0 // indirect
	github.com/kelindar/simd v1.1.2 // indirect
	github.com/kelindar/smutex v1.0.0 // indirect
	github.com/klauspost/cpuid/v2 v2.2.5 // indirect
	github.com/tidwall/btree v1.6.0 // indirect
	github.com/zeebo/xxh3 v1.0.2 // indirect
)

replace github.com/kelindar/column => /repo
