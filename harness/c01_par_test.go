package harness

import (
	"fmt"
	"sync"
	"testing"

	"github.com/kelindar/column"
	"pgregory.net/rapid"
)

// TestC01Parallel: committed values read back exactly also when the writers of
// DIFFERENT 16K blocks commit at the same time (each worker owns the rows of one
// block, so the expected final value of every row is known without knowing the
// schedule): fresh enum strings, strings, ints, records. Checked at quiescence.
func TestC01Parallel(t *testing.T) {
	rapid.Check(t, func(t *rapid.T) {
		blocks := rapid.IntRange(2, 4).Draw(t, "blocks")
		rounds := rapid.IntRange(20, 150).Draw(t, "rounds")
		rowsPer := rapid.IntRange(1, 8).Draw(t, "rows-per-block")
		c := column.NewCollection(column.Options{Capacity: 1024, Vacuum: 24 * 3600 * 1e9})
		defer c.Close()
		c.CreateColumn("e", column.ForEnum())
		c.CreateColumn("s", column.ForString())
		c.CreateColumn("n", column.ForInt64())
		c.CreateColumn("r", column.ForRecord(func() *Rec { return new(Rec) }))
		n := (blocks-1)*16384 + 64
		c.Query(func(txn *column.Txn) error {
			for i := 0; i < n; i++ {
				txn.Insert(func(r column.Row) error { return nil })
			}
			return nil
		})
		var wg sync.WaitGroup
		panics := make([]string, blocks)
		for b := 0; b < blocks; b++ {
			wg.Add(1)
			go func(b int) {
				defer wg.Done()
				defer func() {
					if r := recover(); r != nil {
						panics[b] = fmt.Sprint(r)
					}
				}()
				for i := 0; i <= rounds; i++ {
					for k := 0; k < rowsPer; k++ {
						row := uint32(b)<<14 + uint32(k*7)
						c.QueryAt(row, func(r column.Row) error {
							r.SetEnum("e", fmt.Sprintf("e-%d-%d-%d", b, k, i)) // a fresh dictionary entry every time
							r.SetString("s", fmt.Sprintf("s-%d-%d-%d", b, k, i))
							r.SetInt64("n", int64(b)<<40|int64(k)<<20|int64(i))
							r.SetRecord("r", &Rec{A: uint32(i), B: fmt.Sprintf("%d/%d", b, k)})
							return nil
						})
					}
				}
			}(b)
		}
		wg.Wait()
		for b, p := range panics {
			if p != "" {
				t.Fatalf("C01 violated (writers of %d different blocks committing concurrently): the writer of block %d panicked inside a commit: %s", blocks, b, p)
			}
		}
		for b := 0; b < blocks; b++ {
			for k := 0; k < rowsPer; k++ {
				row := uint32(b)<<14 + uint32(k*7)
				var e, s string
				var nn int64
				var rec any
				var okE, okS, okN, okR bool
				c.QueryAt(row, func(r column.Row) error {
					e, okE = r.Enum("e")
					s, okS = r.String("s")
					nn, okN = r.Int64("n")
					rec, okR = r.Record("r")
					return nil
				})
				wantE, wantS := fmt.Sprintf("e-%d-%d-%d", b, k, rounds), fmt.Sprintf("s-%d-%d-%d", b, k, rounds)
				wantN := int64(b)<<40 | int64(k)<<20 | int64(rounds)
				rr, _ := rec.(*Rec)
				if !okE || e != wantE || !okS || s != wantS || !okN || nn != wantN || !okR || rr == nil || rr.A != uint32(rounds) || rr.B != fmt.Sprintf("%d/%d", b, k) {
					t.Fatalf("C01 violated (writers of %d different blocks committing concurrently): row %d reads enum %q,%v string %q,%v int %d,%v record %+v,%v; last committed: %q %q %d {A:%d B:%d/%d}",
						blocks, row, e, okE, s, okS, nn, okN, rr, okR, wantE, wantS, wantN, rounds, b, k)
				}
			}
		}
		RecordCase("C01", fmt.Sprintf("parallel blocks=%d rounds=%d rows-per-block=%d", blocks, rounds, rowsPer), true, "parallel-writers-of-different-blocks")
	})
}
