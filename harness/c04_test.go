package harness

import (
	"fmt"
	"math"
	"sort"
	"strings"
	"testing"

	"github.com/kelindar/column"
	"pgregory.net/rapid"
)

// ---------------------------------------------------------------------------
// C04 — filters, iteration and aggregates follow set semantics over live rows
// ---------------------------------------------------------------------------

type qKind uint8

const (
	qWith qKind = iota
	qWithout
	qUnion
	qWithUnion
	qWithValue
	qWithInt
	qWithUint
	qWithFloat
	qWithString
)

var qNames = [...]string{"With", "Without", "Union", "WithUnion", "WithValue", "WithInt", "WithUint", "WithFloat", "WithString"}

type qPred struct {
	Op string // "<", ">=", "==", "even", "prefix", "len<="
	K  int64
	S  string
}

func (p qPred) String() string {
	switch p.Op {
	case "prefix":
		return fmt.Sprintf("prefix %q", p.S)
	case "==s":
		return fmt.Sprintf("== %q", p.S)
	case "even":
		return "even"
	case "signbit":
		return "signbit"
	}
	return fmt.Sprintf("%s %d", p.Op, p.K)
}

func (p qPred) evalInt(v int64) bool {
	switch p.Op {
	case "<":
		return v < p.K
	case ">=":
		return v >= p.K
	case "==":
		return v == p.K
	case "even":
		return v%2 == 0
	case "signbit":
		return v < 0
	}
	return false
}

func (p qPred) evalUint(v uint64) bool {
	k := uint64(p.K)
	switch p.Op {
	case "<":
		return p.K > 0 && v < k
	case ">=":
		return p.K <= 0 || v >= k
	case "==":
		return p.K >= 0 && v == k
	case "even":
		return v%2 == 0
	}
	return false
}

func (p qPred) evalFloat(v float64) bool {
	switch p.Op {
	case "<":
		return v < float64(p.K)
	case ">=":
		return v >= float64(p.K)
	case "==":
		return v == float64(p.K)
	case "even":
		return math.Mod(v, 2) == 0
	case "signbit":
		return math.Signbit(v) // tells -0 from +0
	}
	return false
}

func (p qPred) evalString(v string) bool {
	switch p.Op {
	case "prefix":
		return strings.HasPrefix(v, p.S)
	case "==s":
		return v == p.S
	case "len<=":
		return int64(len(v)) <= p.K
	}
	return false
}

type qOp struct {
	Kind  qKind
	Names []string // With/Without/Union/WithUnion
	Col   string   // value filters
	Pred  qPred
}

func (o qOp) String() string {
	if o.Kind <= qWithUnion {
		return fmt.Sprintf("%s(%s)", qNames[o.Kind], strings.Join(o.Names, ","))
	}
	return fmt.Sprintf("%s(%s, %s)", qNames[o.Kind], o.Col, o.Pred)
}

// nameSet is the model's set for a filter name: index members, presence set of a
// value column, truth set of a bool column; ok=false for a missing name.
func (mc *Machine) nameSet(name string) (map[uint32]bool, bool) {
	for _, st := range mc.Indexes {
		if st.Spec.Name == name {
			return mc.modelIndex(st.Spec), true
		}
	}
	ci := mc.Sch.col(name)
	if ci < 0 || !mc.M.ColLive[ci] {
		return nil, false
	}
	out := map[uint32]bool{}
	for off, row := range mc.M.Rows {
		if row[ci].Has {
			out[off] = true
		}
	}
	return out, true
}

func toInt64(k Kind, b uint64) int64 {
	switch {
	case k == KFloat32:
		return int64(math.Float32frombits(uint32(b)))
	case k == KFloat64:
		return int64(math.Float64frombits(b))
	}
	return int64(b)
}

func toFloat64(k Kind, b uint64) float64 {
	switch {
	case k == KFloat32:
		return float64(math.Float32frombits(uint32(b)))
	case k == KFloat64:
		return math.Float64frombits(b)
	case k.Signed():
		return float64(int64(b))
	}
	return float64(b)
}

// applyModel evaluates one filter on the model's selection. fresh reports whether
// the transaction has not been set up by any earlier filter.
func (mc *Machine) applyModel(sel map[uint32]bool, o qOp, fresh bool) map[uint32]bool {
	and := func(a, b map[uint32]bool) map[uint32]bool {
		out := map[uint32]bool{}
		for k := range a {
			if b[k] {
				out[k] = true
			}
		}
		return out
	}
	switch o.Kind {
	case qWith:
		for _, n := range o.Names {
			s, ok := mc.nameSet(n)
			if !ok {
				return map[uint32]bool{}
			}
			sel = and(sel, s)
		}
		return sel
	case qWithout:
		out := map[uint32]bool{}
		for k := range sel {
			out[k] = true
		}
		for _, n := range o.Names {
			if s, ok := mc.nameSet(n); ok {
				for k := range s {
					delete(out, k)
				}
			}
		}
		return out
	case qUnion, qWithUnion:
		if o.Kind == qWithUnion && !fresh {
			// union of the named sets, then intersect
			u := map[uint32]bool{}
			for _, n := range o.Names {
				if s, ok := mc.nameSet(n); ok {
					for k := range s {
						u[k] = true
					}
				}
			}
			return and(sel, u)
		}
		out := map[uint32]bool{}
		for k := range sel {
			out[k] = true
		}
		first := fresh
		for _, n := range o.Names {
			if s, ok := mc.nameSet(n); ok {
				if first {
					out = and(out, s)
				} else {
					for k := range s {
						out[k] = true
					}
				}
			}
			first = false
		}
		return out
	}
	ci := mc.Sch.col(o.Col)
	if ci < 0 || !mc.M.ColLive[ci] {
		return map[uint32]bool{}
	}
	k := mc.Sch.Cols[ci].Kind
	out := map[uint32]bool{}
	switch o.Kind {
	case qWithInt, qWithUint, qWithFloat:
		if !k.Numeric() || k == KBool {
			return out
		}
	case qWithString:
		if !k.Textual() {
			return out
		}
	}
	for off := range sel {
		c := mc.M.Rows[off][ci]
		if !c.Has {
			continue
		}
		ok := false
		switch o.Kind {
		case qWithInt:
			ok = o.Pred.evalInt(toInt64(k, c.V.B))
		case qWithUint:
			ok = o.Pred.evalUint(c.V.B)
		case qWithFloat:
			ok = o.Pred.evalFloat(toFloat64(k, c.V.B))
		case qWithString:
			ok = o.Pred.evalString(c.V.S)
		case qWithValue:
			switch {
			case k == KBool:
				ok = true // Value() of a bool column reports ok only for true
			case k.Numeric():
				ok = o.Pred.evalFloat(toFloat64(k, c.V.B))
			case k == KRecord:
				ok = int64(len(c.V.S)) <= o.Pred.K+4
			default:
				ok = o.Pred.evalString(c.V.S)
			}
		}
		if ok {
			out[off] = true
		}
	}
	return out
}

func anyToFloat(x any) (float64, bool) {
	switch v := x.(type) {
	case int:
		return float64(v), true
	case int16:
		return float64(v), true
	case int32:
		return float64(v), true
	case int64:
		return float64(v), true
	case uint:
		return float64(v), true
	case uint16:
		return float64(v), true
	case uint32:
		return float64(v), true
	case uint64:
		return float64(v), true
	case float32:
		return float64(v), true
	case float64:
		return v, true
	}
	return 0, false
}

// applySUT applies one filter to a real transaction.
func (mc *Machine) applySUT(txn *column.Txn, o qOp) {
	switch o.Kind {
	case qWith:
		txn.With(o.Names...)
	case qWithout:
		txn.Without(o.Names...)
	case qUnion:
		txn.Union(o.Names...)
	case qWithUnion:
		txn.WithUnion(o.Names...)
	case qWithInt:
		txn.WithInt(o.Col, o.Pred.evalInt)
	case qWithUint:
		txn.WithUint(o.Col, o.Pred.evalUint)
	case qWithFloat:
		txn.WithFloat(o.Col, o.Pred.evalFloat)
	case qWithString:
		txn.WithString(o.Col, o.Pred.evalString)
	case qWithValue:
		txn.WithValue(o.Col, func(v any) bool {
			if f, ok := anyToFloat(v); ok {
				return o.Pred.evalFloat(f)
			}
			switch x := v.(type) {
			case bool:
				return x
			case string:
				return o.Pred.evalString(x)
			case *Rec:
				return int64(len(x.B)) <= o.Pred.K
			}
			return false
		})
	}
}

func (mc *Machine) genQuery(t *rapid.T) []qOp {
	var names []string
	for _, st := range mc.Indexes {
		names = append(names, st.Spec.Name, st.Spec.Name)
	}
	for i, cs := range mc.Sch.Cols {
		if mc.M.ColLive[i] {
			names = append(names, cs.Name)
		}
	}
	names = append(names, "nope")
	var cols []string
	for i, cs := range mc.Sch.Cols {
		if mc.M.ColLive[i] {
			cols = append(cols, cs.Name)
		}
	}
	cols = append(cols, "nope")
	n := rapid.IntRange(1, 5).Draw(t, "q-len")
	var ops []qOp
	for i := 0; i < n; i++ {
		o := qOp{Kind: qKind(rapid.IntRange(0, 8).Draw(t, "q-kind"))}
		if o.Kind <= qWithUnion {
			k := rapid.IntRange(1, 3).Draw(t, "q-names")
			for j := 0; j < k; j++ {
				o.Names = append(o.Names, rapid.SampledFrom(names).Draw(t, "q-name"))
			}
			if (o.Kind == qUnion || o.Kind == qWithUnion) && i == 0 && o.Names[0] == "nope" {
				// a fresh Union(missing, ...): the text does not say whether the missing first
				// name means "nothing" or "everything" (DESIGN.md §5) - not generated
				o.Names[0] = names[0]
			}
		} else {
			o.Col = rapid.SampledFrom(cols).Draw(t, "q-col")
			if mc.WideInts && rapid.Bool().Draw(t, "q-on-wide-integer") {
				// full-range layouts: half of the value filters are integer filters on an integer column
				var ints []string
				for i, cs := range mc.Sch.Cols {
					if mc.M.ColLive[i] && cs.Kind.Numeric() && !cs.Kind.Float() && cs.Kind != KBool {
						ints = append(ints, cs.Name)
					}
				}
				if len(ints) > 0 {
					o.Col = rapid.SampledFrom(ints).Draw(t, "q-int-col")
					o.Kind = rapid.SampledFrom([]qKind{qWithInt, qWithUint}).Draw(t, "q-int-kind")
				}
			}
			ci := mc.Sch.col(o.Col)
			textual := ci >= 0 && mc.Sch.Cols[ci].Kind.Textual()
			if o.Kind == qWithString || (o.Kind == qWithValue && textual) {
				o.Pred = qPred{Op: rapid.SampledFrom([]string{"prefix", "==s", "len<="}).Draw(t, "q-sop"),
					S: rapid.SampledFrom([]string{"", "a", "s", "s1", "e", "b", "k", "p"}).Draw(t, "q-s"), K: int64(rapid.IntRange(0, 3).Draw(t, "q-sk"))}
			} else {
				o.Pred = qPred{Op: rapid.SampledFrom([]string{"<", ">=", "==", "even", "signbit"}).Draw(t, "q-op"), K: int64(rapid.IntRange(-30, 60).Draw(t, "q-k"))}
				// half of the thresholds sit on (or one beside) a value that a live row holds in that column:
				// a filter that loses low bits of a 64-bit value, or compares in the wrong width, decides such a row wrongly
				if ci >= 0 && !mc.Sch.Cols[ci].Kind.Float() && mc.Sch.Cols[ci].Kind.Numeric() && mc.Sch.Cols[ci].Kind != KBool && rapid.Bool().Draw(t, "q-k-near-data") {
					var held []int64
					for _, off := range mc.M.Live() {
						if c := mc.M.Rows[off][ci]; c.Has {
							held = append(held, toInt64(mc.Sch.Cols[ci].Kind, c.V.B))
						}
						if len(held) >= 64 {
							break
						}
					}
					if len(held) > 0 {
						o.Pred.K = held[rapid.IntRange(0, len(held)-1).Draw(t, "q-k-row")] + int64(rapid.IntRange(-1, 1).Draw(t, "q-k-delta"))
						mc.flag("threshold-beside-stored-value")
					}
				}
			}
			if ci >= 0 && mc.Sch.Cols[ci].Kind.Float() && o.Kind >= qWithValue && o.Kind <= qWithFloat && rapid.IntRange(0, 2).Draw(t, "q-sign-of-float") == 0 {
				// float columns hold zeros of both signs: a third of their value filters asks for the sign bit
				o.Kind, o.Pred = qWithFloat, qPred{Op: "signbit"}
			}
			if o.Kind == qWithUint && ci >= 0 && mc.Sch.Cols[ci].Kind.Float() {
				o.Kind = qWithInt // float -> uint64 conversion of negative values is implementation-specific
			}
		}
		ops = append(ops, o)
	}
	return ops
}

type aggResult struct {
	Sum        uint64 // bits in the column's type
	Avg        float64
	Min, Max   uint64
	MinOK, MOK bool
}

func sutAggregates(txn *column.Txn, cs ColSpec) aggResult {
	n := cs.Name
	var r aggResult
	f32 := func(f float32) uint64 { return uint64(math.Float32bits(f)) }
	switch cs.Kind {
	case KInt:
		a := txn.Int(n)
		s, av := a.Sum(), a.Avg()
		mn, ok1 := a.Min()
		mx, ok2 := a.Max()
		r = aggResult{uint64(int64(s)), av, uint64(int64(mn)), uint64(int64(mx)), ok1, ok2}
	case KInt16:
		a := txn.Int16(n)
		s, av := a.Sum(), a.Avg()
		mn, ok1 := a.Min()
		mx, ok2 := a.Max()
		r = aggResult{uint64(int64(s)), av, uint64(int64(mn)), uint64(int64(mx)), ok1, ok2}
	case KInt32:
		a := txn.Int32(n)
		s, av := a.Sum(), a.Avg()
		mn, ok1 := a.Min()
		mx, ok2 := a.Max()
		r = aggResult{uint64(int64(s)), av, uint64(int64(mn)), uint64(int64(mx)), ok1, ok2}
	case KInt64:
		a := txn.Int64(n)
		s, av := a.Sum(), a.Avg()
		mn, ok1 := a.Min()
		mx, ok2 := a.Max()
		r = aggResult{uint64(s), av, uint64(mn), uint64(mx), ok1, ok2}
	case KUint:
		a := txn.Uint(n)
		s, av := a.Sum(), a.Avg()
		mn, ok1 := a.Min()
		mx, ok2 := a.Max()
		r = aggResult{uint64(s), av, uint64(mn), uint64(mx), ok1, ok2}
	case KUint16:
		a := txn.Uint16(n)
		s, av := a.Sum(), a.Avg()
		mn, ok1 := a.Min()
		mx, ok2 := a.Max()
		r = aggResult{uint64(s), av, uint64(mn), uint64(mx), ok1, ok2}
	case KUint32:
		a := txn.Uint32(n)
		s, av := a.Sum(), a.Avg()
		mn, ok1 := a.Min()
		mx, ok2 := a.Max()
		r = aggResult{uint64(s), av, uint64(mn), uint64(mx), ok1, ok2}
	case KUint64:
		a := txn.Uint64(n)
		s, av := a.Sum(), a.Avg()
		mn, ok1 := a.Min()
		mx, ok2 := a.Max()
		r = aggResult{s, av, mn, mx, ok1, ok2}
	case KFloat32:
		a := txn.Float32(n)
		s, av := a.Sum(), a.Avg()
		mn, ok1 := a.Min()
		mx, ok2 := a.Max()
		r = aggResult{f32(s), av, f32(mn), f32(mx), ok1, ok2}
	case KFloat64:
		a := txn.Float64(n)
		s, av := a.Sum(), a.Avg()
		mn, ok1 := a.Min()
		mx, ok2 := a.Max()
		r = aggResult{math.Float64bits(s), av, math.Float64bits(mn), math.Float64bits(mx), ok1, ok2}
	}
	return r
}

// checkAggregates compares Sum/Avg/Min/Max of one numeric column over the
// selection with values computed directly from the model.
func (mc *Machine) checkAggregates(t *rapid.T, sel map[uint32]bool, ci int, got aggResult, what string) (partial bool) {
	cs := mc.Sch.Cols[ci]
	k := cs.Kind
	n := 0
	var isum int64
	var usum uint64
	var fsum float64
	var mn, mx uint64
	fits := true
	less := func(a, b uint64) bool {
		switch {
		case k.Float():
			return toFloat64(k, a) < toFloat64(k, b)
		case k.Signed():
			return int64(a) < int64(b)
		}
		return a < b
	}
	offs := make([]uint32, 0, len(sel))
	for off := range sel {
		offs = append(offs, off)
	}
	sort.Slice(offs, func(i, j int) bool { return offs[i] < offs[j] })
	for _, off := range offs {
		c := mc.M.Rows[off][ci]
		if !c.Has {
			partial = true
			continue
		}
		if n == 0 || less(c.V.B, mn) {
			mn = c.V.B
		}
		if n == 0 || less(mx, c.V.B) {
			mx = c.V.B
		}
		n++
		switch {
		case k.Float():
			fsum += toFloat64(k, c.V.B)
		case k.Signed():
			isum += int64(c.V.B)
		default:
			usum += c.V.B
		}
	}
	var wantSum uint64
	switch {
	case k == KFloat32:
		wantSum = uint64(math.Float32bits(float32(fsum)))
		fits = float64(float32(fsum)) == fsum && math.Abs(fsum) < 1<<22
	case k == KFloat64:
		wantSum = math.Float64bits(fsum)
	case k.Signed():
		wantSum = canon(k, uint64(isum))
		fits = int64(wantSum) == isum
	default:
		wantSum = canon(k, usum)
		fits = wantSum == usum
	}
	name := cs.Name
	if got.MinOK != (n > 0) || got.MOK != (n > 0) {
		mc.fail(t, "%s: Min/Max of %s report ok=%v/%v, %d selected rows hold a value", what, name, got.MinOK, got.MOK, n)
	}
	same := func(a, b uint64) bool { return a == b || (k.Float() && toFloat64(k, a) == toFloat64(k, b)) } // -0 and +0 are one value
	if n > 0 && (!same(got.Min, mn) || !same(got.Max, mx)) {
		mc.fail(t, "%s: Min/Max of %s = %s / %s, computed directly over the %d selected rows holding a value: %s / %s", what, name,
			Value{B: got.Min}.render(k), Value{B: got.Max}.render(k), n, Value{B: mn}.render(k), Value{B: mx}.render(k))
	}
	if mc.WideInts && !k.Float() {
		fits = false // a wrapped 64-bit sum cannot be told from a fitting one
	}
	if !fits {
		AddCounter("C04", "aggregates_sum_skipped_overflow", 1)
		return partial
	}
	if got.Sum != wantSum && !(k.Float() && toFloat64(k, got.Sum) == toFloat64(k, wantSum)) {
		mc.fail(t, "%s: Sum of %s = %s, computed directly over the %d selected rows holding a value: %s", what, name,
			Value{B: got.Sum}.render(k), n, Value{B: wantSum}.render(k))
	}
	wantAvg := toFloat64(k, wantSum) / float64(n)
	if n == 0 {
		if !math.IsNaN(got.Avg) && got.Avg != 0 {
			mc.fail(t, "%s: Avg of %s over no values = %v", what, name, got.Avg)
		}
	} else if got.Avg != wantAvg {
		mc.fail(t, "%s: Avg of %s = %v, computed directly over the %d selected rows holding a value: %v", what, name, got.Avg, n, wantAvg)
	}
	return partial
}

func c04SafeValue(t *rapid.T, cs ColSpec, label string) Value {
	switch {
	case cs.Kind == KBool:
		return Value{B: genBits(t, KBool, label)}
	case cs.Kind.Float():
		f := float64(rapid.IntRange(-200, 200).Draw(t, label)) / 4
		if rapid.IntRange(0, 3).Draw(t, label+"-zero") == 0 {
			f = 0 // zeros of both signs are frequent: neighbours that compare equal and are not the same value
		}
		if f == 0 && rapid.Bool().Draw(t, label+"-negative-zero") {
			f = math.Copysign(0, -1)
		}
		if cs.Kind == KFloat32 {
			return Value{B: uint64(math.Float32bits(float32(f)))}
		}
		return Value{B: math.Float64bits(f)}
	case cs.Kind.Signed():
		return Value{B: canon(cs.Kind, uint64(int64(rapid.IntRange(-50, 50).Draw(t, label))))}
	case cs.Kind.Integer():
		return Value{B: uint64(rapid.IntRange(0, 100).Draw(t, label))}
	case cs.Kind == KString:
		return Value{S: rapid.SampledFrom([]string{"", "a", "ab", "s1", "s2", "b", "zz"}).Draw(t, label)}
	}
	return genValue(t, cs, label)
}

func TestC04(t *testing.T) {
	rapid.Check(t, func(t *rapid.T) {
		sch := genSchema(t, SchemaCfg{Key: 1, MinCols: 2, MaxCols: 5,
			Kinds: []Kind{KInt, KInt16, KInt32, KInt64, KUint, KUint16, KUint32, KUint64, KFloat32, KFloat64, KBool, KString, KEnum, KBool, KString}})
		slog := &recLogger{}
		mc := NewMachine("C04", sch, column.Options{Writer: slog})
		defer mc.Close()
		defer mc.Guard(t)
		// a stream follower: the same queries must give the same answers there
		follower := newCollection(sch, column.Options{})
		defer follower.Close()
		fed := 0
		// every second layout stores full-range integers (edge-biased, all 64 bits in use); Sum and Avg are
		// then not judged for the integer columns (overflow), the filters, Min and Max are
		wide := rapid.Bool().Draw(t, "wide-integers")
		mc.WideInts = wide
		safe := c04SafeValue
		if wide {
			safe = func(t *rapid.T, cs ColSpec, label string) Value {
				if cs.Kind.Numeric() && !cs.Kind.Float() && cs.Kind != KBool {
					return genValue(t, cs, label)
				}
				return c04SafeValue(t, cs, label)
			}
			mc.flag("wide-integers")
		}
		cfg := TxnCfg{Prop: "C04", MaxSteps: 8, Deletes: true, Inserts: true, Merges: true, Direct: true, SafeValue: safe,
			NoStoreOnDel: KFActive("f11-store-and-delete-same-txn"), NoOpAfterLenMerge: KFActive("f15-difflen-merge-reorder")}
		f13 := KFActive("f13-aggregates-ignore-presence")
		f14 := KFActive("f14-withunion-single-widens")
		f25 := KFActive("f25-union-after-missing-name")
		queries, nontrivial := 0, 0
		var sample []string

		queryOn := func(t *rapid.T, target *column.Collection, where string) {
			ops := mc.genQuery(t)
			ops = mc.sanitizeQuery(ops, f14, f25, "C04")
			if rapid.IntRange(0, 7).Draw(t, "bare") == 0 {
				ops = nil // no filter at all: Count and Range over the live rows
			}
			// an interfering transaction (a nested collection-level call) between Count and Range: the
			// selection is a snapshot, Range must still visit exactly the rows Count counted
			interfere, victim := uint32(0), false
			if target == mc.C && len(mc.M.Rows) > 0 && rapid.IntRange(0, 3).Draw(t, "interfere") == 0 {
				interfere, victim = pickLive(t, mc.M, mc.Recent, "victim")
			}
			var parts []string
			for _, o := range ops {
				parts = append(parts, o.String())
			}
			desc := strings.Join(parts, ".")
			// model
			sel := map[uint32]bool{}
			for off := range mc.M.Rows {
				sel[off] = true
			}
			for i, o := range ops {
				sel = mc.applyModel(sel, o, i == 0)
			}
			// real
			var visited []uint32
			count := -1
			aggs := map[int]aggResult{}
			var readErr string
			upFront := -1
			if rapid.IntRange(0, 2).Draw(t, "accessor-up-front") == 0 {
				upFront = rapid.IntRange(0, len(sch.Cols)-1).Draw(t, "accessor-col")
				if !mc.M.ColLive[upFront] || sch.Cols[upFront].Kind == KKey {
					upFront = -1
				}
			}
			target.Query(func(txn *column.Txn) error {
				if upFront >= 0 {
					// a typed column accessor obtained (and read once) BEFORE the filter chain, the way
					// transactions are commonly written; it must not change what the chain selects
					_, _ = readCell(txn, column.Row{}, sch.Cols[upFront], ReadTxnTyped)
				}
				for _, o := range ops {
					mc.applySUT(txn, o)
				}
				count = txn.Count()
				if victim {
					mc.C.DeleteAt(interfere)
					mc.C.Insert(func(r column.Row) error { return errStep }) // and a failing insert: reserves and frees an offset
				}
				txn.Range(func(idx uint32) {
					visited = append(visited, idx)
					if txn.Index() != idx {
						readErr = fmt.Sprintf("cursor is %d in the callback for row %d", txn.Index(), idx)
					}
					if victim && idx == interfere {
						return // deleted meanwhile: still selected, its values are gone
					}
					// readers positioned on the row: compare one live column
					for ci, cs := range sch.Cols {
						if !mc.M.ColLive[ci] || (int(idx)+ci)%3 != 0 {
							continue
						}
						cell, err := readCell(txn, column.Row{}, cs, ReadTxnTyped)
						if w, ok := mc.M.Rows[idx]; ok && err == nil && !cellEqual(cs.Kind, w[ci], cell) && readErr == "" {
							readErr = fmt.Sprintf("row %d column %s reads %s inside Range, model has %s", idx, cs.Name, renderCell(cs.Kind, cell), renderCell(cs.Kind, w[ci]))
						}
					}
				})
				for ci, cs := range sch.Cols {
					if !victim && mc.M.ColLive[ci] && cs.Kind.Numeric() && cs.Kind != KBool {
						aggs[ci] = sutAggregates(txn, cs)
					}
				}
				if again := txn.Count(); again != count {
					readErr = fmt.Sprintf("Count() is %d before and %d after Range/aggregates", count, again)
				}
				return nil
			})
			what := where + "query " + desc
			if victim {
				what += fmt.Sprintf(" [row %d deleted by another transaction between Count and Range]", interfere)
				mc.noteDeleted(interfere, mc.M.Rows[interfere])
				delete(mc.M.Rows, interfere)
				mc.M.dirty()
				mc.flag("interference-between-count-and-range")
			}
			got := map[uint32]bool{}
			for i, off := range visited {
				if i > 0 && visited[i-1] >= off {
					mc.fail(t, "%s: Range visits %d after %d (not ascending / repeated)", what, off, visited[i-1])
				}
				got[off] = true
			}
			if d := diffSets(got, sel); d != "" {
				mc.fail(t, "%s: Range %s", what, d)
			}
			if count != len(sel) {
				mc.fail(t, "%s: Count() = %d, set algebra gives %d rows", what, count, len(sel))
			}
			if readErr != "" {
				mc.fail(t, "%s: %s", what, readErr)
			}
			partial := false
			for ci, a := range aggs {
				if f13 {
					// known finding: aggregates ignore column presence => only judged when every selected row holds a value
					all := true
					for off := range sel {
						if !mc.M.Rows[off][ci].Has {
							all = false
							break
						}
					}
					if !all {
						CountExcluded("C04", "f13-aggregates-ignore-presence")
						continue
					}
				}
				if mc.checkAggregates(t, sel, ci, a, what) {
					partial = true
				}
			}
			queries++
			live := mc.M.Live()
			multi := len(live) > 0 && live[len(live)-1] >= 16384
			if len(sel) > 0 && len(sel) < len(mc.M.Rows) && (partial || multi || mc.Flags["reuse"]) {
				nontrivial++
				if len(sample) < 12 {
					sample = append(sample, fmt.Sprintf("%s => %d of %d rows", desc, len(sel), len(mc.M.Rows)))
				}
			}
			mc.logf("%squery %s => %d of %d rows", where, desc, len(sel), len(mc.M.Rows))
		}
		query := func(t *rapid.T) { queryOn(t, mc.C, "") }
		followerQuery := func(t *rapid.T) {
			for _, rc := range slog.Since(fed) {
				cl := rc.Clone.Clone()
				cl.ID = rc.ID
				if err := follower.Replay(cl); err != nil {
					mc.fail(t, "Replay of commit #%d on the stream follower: %v", rc.Seq, err)
				}
				fed++
			}
			mc.flag("query-on-stream-follower")
			queryOn(t, follower, "on a collection that replays the change stream: ")
		}

		t.Repeat(map[string]func(*rapid.T){
			"txn":         func(t *rapid.T) { mc.ActTxn(t, cfg) },
			"query":       query,
			"query2":      query,
			"query3":      query,
			"followerQ":   followerQuery,
			"prefill":     mc.prefillAction,
			"bulkDelete":  func(t *rapid.T) { mc.ActBulkDelete(t) },
			"createIndex": func(t *rapid.T) { mc.ActCreateIndex(t, follower) },
			// dropped index names come back (on another column or with another rule); one drop in three goes
			// through DropColumn(indexName), which leaves the old index attached to its column inside the library
			"dropIndex": func(t *rapid.T) { mc.ActDropIndex(t, follower) },
		})
		mc.CheckFull(t, false)
		AddCounter("C04", "queries", int64(queries))
		AddCounter("C04", "nontrivial_queries", int64(nontrivial))
		RecordCase("C04", mc.Desc(), nontrivial > 0, mc.Labels()...)
	})
}

// sanitizeQuery removes the triggers of listed findings from a generated filter chain
// (f14: WithUnion with one name on a narrowed selection; f25: a union after a filter that
// named a missing or wrongly typed column) and counts what it removed.
func (mc *Machine) sanitizeQuery(ops []qOp, f14, f25 bool, prop string) []qOp {
	sch := mc.Sch
	if f14 {
		for i := range ops {
			if ops[i].Kind == qWithUnion && len(ops[i].Names) == 1 && i > 0 {
				CountExcluded(prop, "f14-withunion-single-widens")
				ops[i].Names = append(ops[i].Names, ops[i].Names[0])
			}
		}
	}
	if f25 {
		emptied := false
		kept := ops[:0]
		for _, o := range ops {
			if emptied && (o.Kind == qUnion || o.Kind == qWithUnion) {
				CountExcluded(prop, "f25-union-after-missing-name")
				continue
			}
			kept = append(kept, o)
			switch {
			case o.Kind == qWith:
				for _, n := range o.Names {
					if _, ok := mc.nameSet(n); !ok {
						emptied = true
					}
				}
			case o.Kind >= qWithValue:
				ci := sch.col(o.Col)
				if ci < 0 {
					emptied = true
				} else if k := sch.Cols[ci].Kind; (o.Kind == qWithString && !k.Textual()) || (o.Kind >= qWithInt && o.Kind <= qWithFloat && (!k.Numeric() || k == KBool)) {
					emptied = true
				}
			}
		}
		ops = kept
	}
	return ops
}
