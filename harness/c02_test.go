package harness

import (
	"bytes"
	"fmt"
	"testing"

	"github.com/kelindar/column"
	"pgregory.net/rapid"
)

// ---------------------------------------------------------------------------
// C02 — transactions are atomic: commit applies all, rollback leaves no trace
// ---------------------------------------------------------------------------

func c02TxnCfg() TxnCfg {
	return TxnCfg{Prop: "C02", MaxSteps: 10, Peeks: true, Rollback: true, FailInsert: true, Deletes: true, Inserts: true, Merges: true, OwnUpdates: true, KeyOps: true,
		NoStoreOnDel: KFActive("f11-store-and-delete-same-txn"), NoOpAfterLenMerge: KFActive("f15-difflen-merge-reorder")}
}

// compareResults checks that two executions of the same transaction answered identically.
func compareResults(a, b []StepResult) string {
	for i := range a {
		if a[i] != b[i] {
			return fmt.Sprintf("step %d: primary answered %+v, twin (history without the rolled-back transactions) answered %+v", i, a[i], b[i])
		}
	}
	return ""
}

func TestC02(t *testing.T) {
	f10 := KFActive("f10-inflight-insert-visible")
	rapid.Check(t, func(t *rapid.T) {
		sch := genSchema(t, SchemaCfg{Key: 1, Merges: true, EnsureLenMerge: true, MaxCols: 4, MinCols: 1})
		log := &recLogger{}
		mc := NewMachine("C02", sch, column.Options{Writer: log})
		defer mc.Close()
		defer mc.Guard(t)
		twin := newCollection(sch, column.Options{})
		defer twin.Close()
		cfg := c02TxnCfg()
		interesting := false
		if rapid.IntRange(0, 7).Draw(t, "start-after-failed-restore") == 0 {
			mc.ActFailedRestore(t, twin) // primary and twin start from the same partially restored state
		}

		// in-flight observation, armed per transaction
		observeAt := -1
		var pre *Model
		var curSpec TxnSpec
		mc.InFlight = func(i int, txn *column.Txn, res []StepResult) {
			if i != observeAt {
				return
			}
			buffered, inserted := false, false
			for j := 0; j <= i; j++ {
				st := curSpec.Steps[j]
				if len(st.Stores) > 0 || st.Kind == SDelete || st.Kind == SDeleteKey {
					buffered = true
				}
				if res[j].Ran && (st.Kind == SInsert || ((st.Kind == SInsertKey || st.Kind == SUpsertKey) && !func() bool { _, ok := pre.KeyOf(st.Key); return ok }())) {
					inserted = true
				}
			}
			if inserted && f10 {
				CountExcluded("C02", "f10-inflight-insert-visible")
				return
			}
			// (1) another transaction sees exactly the committed state
			got, cnt, err := extractRange(mc.C, sch, pre.ColLive, i%2 == 0)
			if err != nil {
				mc.fail(t, "in-flight observation after step %d: %v", i, err)
			}
			if d := pre.diffStates(got, fmt.Sprintf("concurrent reader while the transaction is in flight (after step %d)", i)); d != "" {
				mc.fail(t, "%s", d)
			}
			if cnt != pre.Count() || mc.C.Count() != pre.Count() {
				mc.fail(t, "in flight after step %d: txn.Count()=%d Count()=%d, committed rows: %d", i, cnt, mc.C.Count(), pre.Count())
			}
			// (2) a snapshot taken now restores to the committed state
			var buf bytes.Buffer
			if err := mc.C.Snapshot(&buf); err != nil {
				mc.fail(t, "in flight after step %d: Snapshot failed: %v", i, err)
			}
			rc := newCollectionLive(sch, pre.ColLive, column.Options{})
			if err := rc.Restore(bytes.NewReader(buf.Bytes())); err != nil {
				rc.Close()
				mc.fail(t, "in flight after step %d: Restore failed: %v", i, err)
			}
			rgot, _, err := extractRange(rc, sch, pre.ColLive, false)
			rc.Close()
			if err != nil {
				mc.fail(t, "in flight after step %d: reading the restored snapshot: %v", i, err)
			}
			if d := pre.diffStates(rgot, fmt.Sprintf("snapshot taken while the transaction is in flight (after step %d)", i)); d != "" {
				mc.fail(t, "%s", d)
			}
			// (3) the transaction's own reads still return the committed values
			for j := 0; j <= i; j++ {
				st := curSpec.Steps[j]
				if st.Kind != SUpdate {
					continue
				}
				want, ok := pre.Rows[st.Row]
				if !ok {
					continue
				}
				row := make(MRow, len(sch.Cols))
				txn.QueryAt(st.Row, func(r column.Row) error {
					for ci, cs := range sch.Cols {
						if pre.ColLive[ci] {
							row[ci], _ = readCell(txn, r, cs, (i+ci)%numReadPaths)
						}
					}
					return nil
				})
				if d := pre.diffRow(st.Row, want, row, "the transaction's own read of a row it wrote to"); d != "" {
					mc.fail(t, "%s", d)
				}
			}
			if buffered {
				interesting = true
				mc.flag("inflight-observed")
			}
		}

		runTxn := func(t *rapid.T) {
			spec := genTxn(t, mc.M, mc.Recent, cfg)
			curSpec = spec
			observeAt = -1
			if rapid.IntRange(0, 2).Draw(t, "observe") == 0 {
				last := len(spec.Steps) - 1
				if spec.FailAt >= 0 {
					last = spec.FailAt
				}
				observeAt = rapid.IntRange(0, last).Draw(t, "observe-at")
				pre = mc.M.Clone()
			}
			n0 := log.Len()
			hadInsert := false
			eff, committed := mc.RunTxn(t, spec, false)
			if committed {
				tres, terr := execTxn(twin, sch, mc.M.ColLive, spec)
				if terr != nil {
					mc.fail(t, "twin: committed transaction failed: %v", terr)
				}
				// mc.RunTxn consumed the results already; re-run comparison through the model's recorded offsets
				if d := compareResults(mc.lastRes, tres); d != "" {
					mc.fail(t, "%s", d)
				}
				mc.CheckTouched(t, eff)
			} else {
				for i, st := range spec.Steps {
					if i <= spec.FailAt && mc.lastRes[i].Ran && !st.Fail && (st.Kind == SInsert || st.Kind == SInsertKey || st.Kind == SUpsertKey) {
						hadInsert = true
					}
					if i <= spec.FailAt && (st.Kind == SDelete || st.Kind == SDeleteKey || st.Kind == SSetKey) {
						hadInsert = true // (any buffered row/key change counts for the rule)
					}
				}
				if got := log.Len() - n0; got != 0 {
					mc.fail(t, "a rolled-back transaction emitted %d commit(s) to the change stream", got)
				}
				if hadInsert {
					interesting = true
					mc.flag("rollback-with-insert/delete/key")
				}
				// nothing changed: verify the rows the transaction aimed at, and everything when small
				var rows []uint32
				for i, st := range spec.Steps {
					if i <= spec.FailAt && (st.Kind == SUpdate || st.Kind == SDelete || st.Kind == SSetKey) {
						rows = append(rows, st.Row)
					}
				}
				mc.CheckRows(t, rows, ReadRowTyped, ReadTxnAny)
				if len(mc.M.Rows) <= 300 {
					mc.CheckFull(t, false)
				}
			}
			mc.CheckCount(t)
			mc.CheckKeys(t)
			// indexes: a commit applies every change to them, a rollback leaves them as they were
			mc.CheckIndexes(t, mc.C, "after the transaction", nil)
		}

		t.Repeat(map[string]func(*rapid.T){
			"createIndex": func(t *rapid.T) { mc.ActCreateIndex(t, twin) },
			"dropIndex":   func(t *rapid.T) { mc.ActDropIndex(t, twin) },
			"dropColumn":  func(t *rapid.T) { mc.ActDropColumn(t, twin) },
			"recreateCol": func(t *rapid.T) { mc.ActLateColumn(t, twin) },
			"txn":         runTxn,
			"txn2":        runTxn,
			"txn3":        runTxn,
			"prefill": func(t *rapid.T) {
				if len(mc.M.Rows) > 20000 {
					t.Skip("large enough")
				}
				n := genPrefillSize(t, mc.bigPrefills < 1)
				if n > 1000 {
					mc.bigPrefills++
				}
				cols := storableCols(mc.M, TxnCfg{})
				if len(cols) > 2 {
					cols = cols[:2]
				}
				seed := rapid.Uint64().Draw(t, "seed")
				mc.ActPrefill(t, n, cols, seed)
				twinPrefill(t, mc, twin, n, cols, seed)
			},
			"bulkDelete": func(t *rapid.T) {
				live := mc.M.Live()
				if len(live) == 0 {
					t.Skip("nothing to delete")
				}
				pattern := rapid.IntRange(0, 9).Draw(t, "pattern")
				a, b := rapid.IntRange(0, 1<<20).Draw(t, "a"), rapid.IntRange(0, 1<<20).Draw(t, "b")
				var targets []uint32
				if pattern >= 7 {
					// [With/Without(name);] DeleteAll - first rolled back on the primary only (no trace), then committed on both
					name, without, tg := mc.deleteAllPlan(pattern, a, b)
					targets = tg
					mc.logf("bulkDelete DeleteAll name=%q without=%v (%d of %d rows), preceded by the same transaction rolled back", name, without, len(targets), len(live))
					n0 := log.Len()
					if err := runDeleteAll(mc.C, name, without, true); err == nil {
						mc.fail(t, "Query returned nil for a body that returned an error")
					}
					if log.Len() != n0 {
						mc.fail(t, "a rolled-back DeleteAll emitted %d commit(s) to the change stream", log.Len()-n0)
					}
					mc.CheckCount(t)
					var sample []uint32
					for i := 0; i < len(targets); i += 1 + len(targets)/40 {
						sample = append(sample, targets[i])
					}
					mc.CheckRows(t, sample, ReadRowTyped, ReadTxnAny)
					if len(targets) > 0 {
						interesting = true
						mc.flag("rollback-of-delete-all")
					}
					runDeleteAll(mc.C, name, without, false)
					runDeleteAll(twin, name, without, false)
				} else {
					targets = bulkDeleteTargets(live, pattern, a, b)
					mc.logf("bulkDelete pattern=%d a=%d b=%d (%d of %d rows)", pattern, a, b, len(targets), len(live))
					for _, c := range []*column.Collection{mc.C, twin} {
						c.Query(func(txn *column.Txn) error {
							for _, off := range targets {
								txn.DeleteAt(off)
							}
							return nil
						})
					}
				}
				for _, off := range targets {
					mc.noteDeleted(off, mc.M.Rows[off])
					delete(mc.M.Rows, off)
				}
				mc.M.dirty()
				mc.CheckCount(t)
			},
		})
		// final: primary, twin and model agree completely
		mc.CheckFull(t, false)
		mc.CheckKeys(t)
		mc.CheckIndexes(t, mc.C, "at the end", nil)
		mc.CheckIndexes(t, twin, "twin at the end", nil)
		got, cnt, err := extractRange(twin, sch, mc.M.ColLive, true)
		if err != nil {
			mc.fail(t, "reading the twin: %v", err)
		}
		if d := mc.M.diffStates(got, "twin (history without the rolled-back transactions)"); d != "" {
			mc.fail(t, "%s", d)
		}
		if cnt != mc.M.Count() || twin.Count() != mc.C.Count() {
			mc.fail(t, "Count differs: primary %d, twin %d, model %d", mc.C.Count(), twin.Count(), mc.M.Count())
		}
		RecordCase("C02", mc.Desc(), interesting, mc.Labels()...)
	})
}

// twinPrefill repeats a prefill on the twin and requires identical offsets.
func twinPrefill(t *rapid.T, mc *Machine, twin *column.Collection, n int, cols []int, seed uint64) {
	// the primary's prefill has been applied to the model already: the rows inserted by it are
	// exactly those whose offsets the twin must produce now.
	var offsets []uint32
	keyed := mc.Sch.Key >= 0
	base := mc.lastPrefillBase
	err := twin.Query(func(txn *column.Txn) error {
		for i := 0; i < n; i++ {
			body := func(r column.Row) error {
				for _, ci := range cols {
					writeStore(txn, r, mc.Sch.Cols[ci], Store{Col: ci, Val: prefillValue(mc.Sch.Cols[ci], seed, i, ci), Via: uint8(i % 2)})
				}
				offsets = append(offsets, r.Index())
				return nil
			}
			if keyed {
				if err := txn.InsertKey(fmt.Sprintf("p%d_%d_%x", base, i, seed&0xffff), body); err != nil {
					return err
				}
			} else if _, err := txn.Insert(body); err != nil {
				return err
			}
		}
		return nil
	})
	if err != nil {
		mc.fail(t, "twin prefill failed: %v", err)
	}
	for i, off := range offsets {
		if off != mc.lastPrefillOffsets[i] {
			mc.fail(t, "prefill insert #%d: primary was given offset %d, twin (history without the rolled-back transactions) offset %d", i, mc.lastPrefillOffsets[i], off)
		}
	}
}
