package harness

import (
	"bytes"
	"fmt"
	"os"
	"sort"
	"strings"
	"testing"
	"time"

	"github.com/kelindar/column"
	"github.com/kelindar/column/commit"
	"pgregory.net/rapid"
)

// ---------------------------------------------------------------------------
// C13 — truncated snapshot or log files never restore silently wrong state
// ---------------------------------------------------------------------------

// guarded runs fn under a watchdog and recover: a panic or a hang is reported.
func guarded(fn func() error) (err error, bad string) {
	done := make(chan struct{})
	go func() {
		defer close(done)
		defer func() {
			if r := recover(); r != nil {
				bad = fmt.Sprintf("panic: %v", r)
			}
		}()
		err = fn()
	}()
	select {
	case <-done:
	case <-after(20 * time.Second):
		bad = "hang: no result within 20 s"
	}
	return
}

// blockEqual compares block b of an extracted state with block b of a model.
func blockEqual(m *Model, got map[uint32]MRow, b uint32) bool {
	n := 0
	for off, row := range m.Rows {
		if off>>14 != b {
			continue
		}
		n++
		g, ok := got[off]
		if !ok || m.diffRow(off, row, g, "") != "" {
			return false
		}
	}
	for off := range got {
		if off>>14 == b {
			n--
		}
	}
	return n == 0
}

type c13Tail struct {
	point  string
	blocks []uint32 // blocks the transaction changed, ascending (one logged commit each)
}

func truncationOffsets(t *rapid.T, data []byte, extra int) []int {
	if thorough() && len(data) <= 40000 {
		out := make([]int, len(data))
		for i := range out {
			out[i] = i
		}
		return out
	}
	seen := map[int]bool{}
	var out []int
	add := func(n int) {
		if n >= 0 && n < len(data) && !seen[n] {
			seen[n] = true
			out = append(out, n)
		}
	}
	frames, streams := s2Frames(data)
	for _, f := range append(frames, streams...) {
		for d := -2; d <= 2; d++ {
			add(f + d)
		}
	}
	add(0)
	add(1)
	add(len(data) - 1)
	add(len(data) - 2)
	for i := 0; i < extra; i++ {
		add(rapid.IntRange(0, len(data)-1).Draw(t, "cut"))
	}
	sort.Ints(out)
	return out
}

func TestC13Snapshot(t *testing.T) {
	rapid.Check(t, func(t *rapid.T) {
		sch := genSchema(t, SchemaCfg{Key: 1, MinCols: 1, MaxCols: 3, Kinds: []Kind{KInt, KString, KBool, KUint16, KEnum, KFloat64}, Capacities: []int{1, 1024, 16385}})
		mc := NewMachine("C13", sch, column.Options{})
		defer mc.Close()
		defer mc.Guard(t)
		defer column.SetVerifHook(nil)
		// key operations over the small key alphabet: a key may be deleted in one block and come back in
		// another one while the snapshot is in progress (the blocks' cuts then disagree about who holds it)
		cfg := TxnCfg{Prop: "C13", MaxSteps: 4, Deletes: true, Inserts: true, Merges: true, KeyOps: sch.Key >= 0, NoStoreOnDel: KFActive("f11-store-and-delete-same-txn"), NoOpAfterLenMerge: KFActive("f15-difflen-merge-reorder")}
		// layout: 0..3 blocks, thinned so that the file stays small
		switch rapid.IntRange(0, 4).Draw(t, "layout") {
		case 0:
		case 1:
			mc.ActPrefill(t, rapid.IntRange(1, 40).Draw(t, "n"), storableCols(mc.M, TxnCfg{}), rapid.Uint64().Draw(t, "seed"))
		case 2, 3:
			mc.ActPrefill(t, 16390+rapid.IntRange(0, 20).Draw(t, "n"), storableCols(mc.M, TxnCfg{})[:1], rapid.Uint64().Draw(t, "seed"))
			mc.thin(t, 24)
		default:
			mc.ActPrefill(t, 33000, storableCols(mc.M, TxnCfg{})[:1], rapid.Uint64().Draw(t, "seed"))
			mc.thin(t, 30)
		}
		// the snapshot, with a log tail produced at drawn yield points
		plan := map[string]int{}
		points := []string{"snapshot:recorder-open", "snapshot:pre-chunk:0", "snapshot:pre-chunk:1", "snapshot:pre-chunk:2", "snapshot:pre-close", "snapshot:pre-copy"}
		if rapid.IntRange(0, 4).Draw(t, "with-tail") != 0 {
			for _, p := range points {
				plan[p] = rapid.SampledFrom([]int{0, 0, 1, 1, 2}).Draw(t, "tail-at-"+p)
			}
		}
		states := []*Model{mc.M.Clone()} // S_0, S_1, ... after each tail transaction
		var tails []c13Tail
		remove := mc.installTail(t, plan, cfg, func(point string, eff *TxnEffect, committed bool) {
			var blocks []uint32
			if committed {
				for b := range eff.Blocks {
					blocks = append(blocks, b)
				}
			}
			sort.Slice(blocks, func(i, j int) bool { return blocks[i] < blocks[j] })
			tails = append(tails, c13Tail{point: point, blocks: blocks})
			states = append(states, mc.M.Clone())
		})
		var file bytes.Buffer
		err := mc.C.Snapshot(&file)
		remove()
		if err != nil {
			mc.fail(t, "Snapshot failed: %v", err)
		}
		data := file.Bytes()
		// number of blocks the state section holds: computed right after the recorder-open transactions
		nOpen := 0
		for _, tl := range tails {
			if tl.point == "snapshot:recorder-open" {
				nOpen++
			}
		}
		chunks := uint32(0)
		if live := states[nOpen].Live(); len(live) > 0 {
			chunks = live[len(live)-1]>>14 + 1
		}
		// cut[b] = number of tail transactions applied before block b was read. A block that is
		// not in the state section (b >= chunks: empty when the state was written) is rebuilt from
		// the log alone, every logged commit for it applies from scratch: its base is the state
		// before all tail transactions (cut 0) - provided the block was empty then as well;
		// otherwise (all its rows deleted during recorder-open) the block is not judged.
		unjudged := map[uint32]bool{}
		cutOf := func(b uint32) int {
			if b >= chunks {
				for off := range states[0].Rows {
					if off>>14 == b {
						unjudged[b] = true
					}
				}
				return 0
			}
			n := 0
			for _, tl := range tails {
				switch {
				case tl.point == "snapshot:recorder-open":
					n++
				case len(tl.point) > 19 && tl.point[:19] == "snapshot:pre-chunk:":
					var i uint32
					fmt.Sscanf(tl.point[19:], "%d", &i)
					if i <= b {
						n++
					}
				}
			}
			return n
		}
		// logged commits in order: (transaction index j (1-based), block), for transactions before recorder close
		type logged struct {
			j int
			b uint32
		}
		var L []logged
		nClose := 0
		for j, tl := range tails {
			if tl.point == "snapshot:pre-copy" {
				continue
			}
			nClose = j + 1
			for _, b := range tl.blocks {
				L = append(L, logged{j + 1, b})
			}
		}
		allBlocks := map[uint32]bool{}
		for _, s := range states {
			for off := range s.Rows {
				allBlocks[off>>14] = true
			}
		}
		// matches reports whether the restored state equals E_k for some k
		matches := func(got map[uint32]MRow) (int, bool) {
			for off := range got {
				allBlocks[off>>14] = true
			}
			for k := 0; k <= len(L); k++ {
				ok := true
				for b := range allBlocks {
					J := cutOf(b)
					for _, lg := range L[:k] {
						if lg.b == b && lg.j > J {
							J = lg.j
						}
					}
					if unjudged[b] {
						continue
					}
					if !blockEqual(states[J], got, b) {
						ok = false
						break
					}
				}
				if ok {
					return k, true
				}
			}
			return 0, false
		}
		restore := func(prefix []byte) (map[uint32]MRow, error, string) {
			rc := newCollectionLive(sch, mc.M.ColLive, column.Options{})
			defer rc.Close()
			err, bad := guarded(func() error { return rc.Restore(deliver(prefix, len(prefix)>>2)) })
			if bad != "" || err != nil {
				return nil, err, bad
			}
			got, _, rerr := extractRange(rc, sch, mc.M.ColLive, false)
			if rerr != nil {
				return nil, nil, "reading the restored collection: " + rerr.Error()
			}
			if rc.Count() != len(got) {
				return nil, nil, fmt.Sprintf("restored collection: Count()=%d but %d rows are visible", rc.Count(), len(got))
			}
			return got, nil, ""
		}
		mc.logf("snapshot file: %d bytes, %d blocks in the state section, %d logged commits, tail=%v", len(data), chunks, len(L), tails)
		// the complete file restores to the state at recorder close
		got, rerr, bad := restore(data)
		if bad != "" || rerr != nil {
			mc.fail(t, "Restore of the complete snapshot: err=%v %s", rerr, bad)
		}
		if d := states[nClose].diffStates(got, "complete snapshot restored (state at recorder close)"); d != "" {
			mc.fail(t, "%s", d)
		}
		_, streams := s2Frames(data)
		junction := len(data)
		if len(streams) >= 2 {
			junction = streams[1]
		}
		for _, n := range truncationOffsets(t, data, 150) {
			mc.beat()
			got, rerr, bad := restore(data[:n])
			what := fmt.Sprintf("Restore of the first %d of %d bytes (state/log junction at %d)", n, len(data), junction)
			if bad != "" {
				writeC13Replay(mc, data, n, bad)
				mc.fail(t, "%s: %s", what, bad)
			}
			label, nontrivial := "error", false
			if rerr == nil {
				k, ok := matches(got)
				if !ok {
					writeC13Replay(mc, data, n, "restored state matches no commit boundary")
					mc.fail(t, "%s returned nil but the restored state (%d rows) equals the original at NO commit boundary (block states + a prefix of the %d logged commits)", what, len(got), len(L))
				}
				label = fmt.Sprintf("nil-at-boundary")
				_ = k
				if n > junction || n < junction && n > 8 {
					nontrivial = true
				}
				if n > junction {
					label = "nil-inside-log-tail"
				} else if n < junction {
					label = "nil-inside-state-section"
				}
			}
			RecordCase("C13", fmt.Sprintf("%s | tail=%v | cut at %d/%d junction=%d -> %s", mc.Trace[0], tails, n, len(data), junction, label), nontrivial, "snapshot:"+label)
		}
		SetExhaustive("C13", "every truncation offset of each generated snapshot/log file (thorough tier)", thorough())
	})
}

// thin deletes all but about keep rows, keeping rows in every populated block.
func (mc *Machine) thin(t *rapid.T, keep int) {
	live := mc.M.Live()
	if len(live) <= keep {
		return
	}
	keepSet := map[uint32]bool{live[0]: true, live[len(live)-1]: true}
	for i := 0; i < keep; i++ {
		keepSet[live[rapid.IntRange(0, len(live)-1).Draw(t, "keep")]] = true
	}
	for _, b := range []uint32{16383, 16384, 16385, 32767, 32768} {
		keepSet[b] = true
	}
	var targets []uint32
	for _, off := range live {
		if !keepSet[off] {
			targets = append(targets, off)
		}
	}
	mc.logf("thin: delete %d of %d rows", len(targets), len(live))
	mc.C.Query(func(txn *column.Txn) error {
		for _, off := range targets {
			txn.DeleteAt(off)
		}
		return nil
	})
	for _, off := range targets {
		mc.noteDeleted(off, mc.M.Rows[off])
		delete(mc.M.Rows, off)
	}
	mc.M.dirty()
	mc.CheckCount(t)
}

func writeC13Replay(mc *Machine, data []byte, n int, why string) {
	writeReplay("C13", "TestC13Replay", map[string]any{"kind": "snapshot", "file": data, "cut": n, "why": why, "history": mc.Trace})
}

// ---- commit logs ---------------------------------------------------------------

func TestC13Log(t *testing.T) {
	rapid.Check(t, func(t *rapid.T) {
		// 1..N commits over several blocks, built from generated op lists (C05 generator)
		ncommits := rapid.IntRange(1, 6).Draw(t, "ncommits")
		type built struct {
			cm  commit.Commit
			ops []bop
			blk uint32
		}
		var all []built
		var store bytes.Buffer
		log := commit.Open(&store)
		for i := 0; i < ncommits; i++ {
			ops := neutraliseF15(genC05Ops(t, 25))
			for j := range ops {
				ops[j].Off &= 0xfffff // keep blocks small in number
			}
			buf := commit.NewBuffer(16)
			buf.Reset("col")
			for _, o := range ops {
				writeBop(buf, o, 0)
			}
			other := commit.NewBuffer(8)
			other.Reset("other")
			blocks := blocksOf(ops)
			for _, b := range blocks {
				other.PutUint32(commit.Put, b<<14, b)
			}
			sparse := commit.NewBuffer(8)
			sparse.Reset("sparse")
			sparse.PutUint16(commit.Put, blocks[0]<<14+1, 7) // an operation in the lowest block only (see checkCommitEquals)
			b := blocks[rapid.IntRange(0, len(blocks)-1).Draw(t, "block")]
			cm := commit.Commit{ID: uint64(1000 + i), Chunk: commit.Chunk(b), Updates: []*commit.Buffer{buf, sparse, other}}
			if err := log.Append(cm); err != nil {
				t.Fatalf("Append: %v", err)
			}
			all = append(all, built{cm, ops, b})
		}
		data := store.Bytes()
		for _, n := range truncationOffsets(t, data, 120) {
			delivered := 0
			var cmpErr error
			err, bad := guarded(func() error {
				return commit.Open(bytes.NewReader(data[:n])).Range(func(cm commit.Commit) error {
					if delivered >= len(all) {
						cmpErr = fmt.Errorf("more commits delivered than were appended")
						return cmpErr
					}
					w := all[delivered]
					if e := checkCommitEquals(&cm, w.cm.ID, w.blk, w.ops); e != nil && cmpErr == nil {
						cmpErr = fmt.Errorf("commit #%d delivered from the truncated log differs from the appended one (partial commit?): %v", delivered, e)
					}
					delivered++
					return nil
				})
			})
			what := fmt.Sprintf("Range over the first %d of %d bytes of a log with %d commits", n, len(data), len(all))
			if bad != "" || cmpErr != nil {
				writeReplay("C13", "TestC13Replay", map[string]any{"kind": "log", "file": data, "cut": n, "why": fmt.Sprint(bad, cmpErr)})
				t.Fatalf("C13 violated: %s: %s %v", what, bad, cmpErr)
			}
			label := "error"
			if err == nil {
				label = fmt.Sprintf("nil-after-prefix")
			}
			RecordCase("C13", fmt.Sprintf("log commits=%d bytes=%d cut=%d delivered=%d err=%v", len(all), len(data), n, delivered, err != nil), err == nil && delivered > 0 && delivered < len(all), "log:"+label)
		}
		// the complete log delivers everything
		delivered := 0
		err := commit.Open(bytes.NewReader(data)).Range(func(cm commit.Commit) error {
			if e := checkCommitEquals(&cm, all[delivered].cm.ID, all[delivered].blk, all[delivered].ops); e != nil {
				return e
			}
			delivered++
			return nil
		})
		if err != nil || delivered != len(all) {
			t.Fatalf("C13 violated: the complete log delivered %d of %d commits, err=%v", delivered, len(all), err)
		}
	})
}

// TestC13Replay re-runs a saved truncation (JSON replay): it reports whether the
// call still panics/hangs; state comparisons need the generating history and are
// re-run through the rapid fail file when there is one.
func TestC13Replay(t *testing.T) {
	var rp struct {
		Kind string `json:"kind"`
		File []byte `json:"file"`
		Cut  int    `json:"cut"`
		Why  string `json:"why"`
	}
	if !loadReplay(t, &rp) {
		t.Skip("no replay file")
	}
	if rp.Kind == "log" {
		_, bad := guarded(func() error {
			return commit.Open(bytes.NewReader(rp.File[:rp.Cut])).Range(func(cm commit.Commit) error { return nil })
		})
		if bad != "" {
			t.Fatalf("C13 violated: %s", bad)
		}
		t.Logf("saved reason: %s (content comparison needs the generated case; see the history in the replay file)", rp.Why)
		return
	}
	t.Fatalf("C13 violated (saved): %s; snapshot replays need the collection's schema - see 'history' in the replay file", rp.Why)
}

// TestC13Parallel: snapshots are taken while writers commit with real
// parallelism (every transaction writes a=v, b=-v, c=v on one row, as in C10);
// prefixes of the file - the state section alone, cuts inside the log tail - are
// restored: whenever Restore returns nil every row must satisfy the invariant
// (a state that contains part of a commit does not), and the complete file must.
func TestC13Parallel(t *testing.T) {
	rapid.Check(t, func(t *rapid.T) {
		blocks := rapid.IntRange(1, 2).Draw(t, "blocks")
		writers := rapid.IntRange(2, 6).Draw(t, "writers")
		c := column.NewCollection(column.Options{Capacity: 1024, Vacuum: 24 * 3600 * 1e9})
		defer c.Close()
		c.CreateColumn("a", column.ForInt())
		c.CreateColumn("b", column.ForInt())
		c.CreateColumn("c", column.ForUint64())
		n := blocks*16384 - 100
		c.Query(func(txn *column.Txn) error {
			for i := 0; i < n; i++ {
				txn.Insert(func(r column.Row) error { r.SetInt("a", 0); r.SetInt("b", 0); r.SetUint64("c", 0); return nil })
			}
			return nil
		})
		hotRows := []uint32{0, 3, 7}
		if blocks == 2 {
			hotRows = append(hotRows, 16384, 16390)
		}
		stop := make(chan struct{})
		done := make(chan struct{}, writers)
		for w := 0; w < writers; w++ {
			go func(w int) {
				defer func() { recover(); done <- struct{}{} }()
				x := uint32(w*104729 + 7)
				for v := 1; ; v++ {
					select {
					case <-stop:
						return
					default:
					}
					x = x*1664525 + 1013904223
					if v%2 == 0 {
						// a hot row of some block that EVERY writer merges a positive amount into: its value
						// only grows in the order the commits are applied to the block
						hot := hotRows[int(x>>9)%len(hotRows)]
						d := int(x>>4)%5 + 1
						c.QueryAt(hot, func(r column.Row) error {
							r.MergeInt("a", d)
							r.MergeInt("b", -d)
							r.MergeUint64("c", uint64(d))
							return nil
						})
						continue
					}
					// each writer owns the rows congruent to w, so that merges keep the invariant
					row := ((x>>8)%uint32(n)/uint32(writers))*uint32(writers) + uint32(w)
					if row >= uint32(n) || row < 8 || (row >= 16384 && row < 16392) {
						continue
					}
					val := v*8 + w
					c.QueryAt(row, func(r column.Row) error {
						r.SetInt("a", val)
						r.SetInt("b", -val)
						r.SetUint64("c", uint64(val))
						return nil
					})
				}
			}(w)
		}
		var lastHot []int // values of the hot rows in the previous (shorter) prefix of the same snapshot
		check := func(data []byte, what string) (restored bool) {
			d := column.NewCollection(column.Options{Capacity: 1024, Vacuum: 24 * 3600 * 1e9})
			defer d.Close()
			d.CreateColumn("a", column.ForInt())
			d.CreateColumn("b", column.ForInt())
			d.CreateColumn("c", column.ForUint64())
			err, bad := guarded(func() error { return d.Restore(bytes.NewReader(data)) })
			if bad != "" {
				t.Fatalf("C13 violated: %s: %s", what, bad)
			}
			if err != nil {
				return false
			}
			obs := &c10Obs{}
			c10ReadABC(d, obs)
			if obs.Bad != "" {
				t.Fatalf("C13 violated: %s returned nil but the restored state contains part of a commit: %s (snapshot taken under %d writers, %d blocks)", what, obs.Bad, writers, blocks)
			}
			// a longer prefix holds more of each block's commit sequence, in order: a value that only
			// grows from commit to commit can never be smaller than in a shorter prefix
			hot := make([]int, len(hotRows))
			for i, off := range hotRows {
				d.QueryAt(off, func(r column.Row) error { hot[i], _ = r.Int("a"); return nil })
				if lastHot != nil && hot[i] < lastHot[i] {
					t.Fatalf("C13 violated: %s: row %d holds %d, a SHORTER prefix of the same snapshot restored %d although every commit on that row adds a positive amount (the logged commits are not in the order in which they were applied to the block)", what, off, hot[i], lastHot[i])
				}
			}
			lastHot = hot
			return true
		}
		nontrivial := 0
		for round := 0; round < 3; round++ {
			var buf bytes.Buffer
			if err := c.Snapshot(&buf); err != nil {
				t.Fatalf("C13: Snapshot under writers failed: %v", err)
			}
			data := buf.Bytes()
			_, streams := s2Frames(data)
			junction := len(data)
			if len(streams) >= 2 {
				junction = streams[1]
			}
			lastHot = nil
			if check(data[:junction], fmt.Sprintf("Restore of the state section alone (first %d of %d bytes)", junction, len(data))) && junction < len(data) {
				nontrivial++
			}
			frames, _ := s2Frames(data)
			tried := 0
			for _, f := range frames {
				if f > junction && tried < 40 {
					tried++
					check(data[:f], fmt.Sprintf("Restore of the first %d of %d bytes (inside the log tail, junction %d)", f, len(data), junction))
				}
			}
			if !check(data, "Restore of the complete snapshot") {
				t.Fatalf("C13 violated: Restore of a complete snapshot taken under writers returned an error")
			}
		}
		close(stop)
		for w := 0; w < writers; w++ {
			<-done
		}
		RecordCase("C13", fmt.Sprintf("parallel: blocks=%d writers=%d snapshots=3", blocks, writers), nontrivial > 0, "snapshot:parallel-writers")
	})
}

// c10ReadABC checks the a/b/c invariant on every row of a collection.
func c10ReadABC(c *column.Collection, obs *c10Obs) {
	c.Query(func(txn *column.Txn) error {
		ra, rb, rc := txn.Int("a"), txn.Int("b"), txn.Uint64("c")
		return txn.Range(func(idx uint32) {
			a, okA := ra.Get()
			b, okB := rb.Get()
			cc, okC := rc.Get()
			c10CheckRow(idx, a, okA, b, okB, cc, okC, obs)
		})
	})
}

// TestC13Big: a snapshot whose state AND whose log tail are larger than the 1 MiB block of the s2
// stream (33 000 rows with 80-byte strings; while the snapshot is in progress one transaction
// re-writes the string of every row: three commits of ~1.4 MiB each). The file is cut at every s2
// frame boundary +-2, at the state/log junction +-2 and at a few other places. Restore of a prefix
// must fail or give a state at a commit boundary: every block holds either all old or all new
// strings, and the blocks with new strings are a prefix of the commit order.
func TestC13Big(t *testing.T) {
	rapid.Check(t, func(t *rapid.T) {
		c13Big(t, rapid.IntRange(32770, 36000).Draw(t, "rows"), rapid.IntRange(66, 140).Draw(t, "string-bytes"))
	})
}

func c13Big(t *rapid.T, n, width int) {
	// run for C08 (VERIF_PROP=C08) the same case decides: the COMPLETE file must restore without error
	// (the snapshot was taken while three commits of more than 1 MiB were applied) to a consistent cut
	prop := os.Getenv("VERIF_PROP")
	if prop != "C08" {
		prop = "C13"
	}
	mk := func() *column.Collection {
		c := column.NewCollection(column.Options{Capacity: 1024, Vacuum: 24 * 3600 * 1e9})
		c.CreateColumn("n", column.ForInt())
		c.CreateColumn("s", column.ForString())
		return c
	}
	c := mk()
	defer c.Close()
	// incompressible per-row strings, so that the compressed file spans several 1 MiB blocks too
	text := func(i int, salt uint64) string {
		var b strings.Builder
		x := uint64(i)*0x9E3779B97F4A7C15 + salt
		for b.Len() < width {
			x ^= x << 13
			x ^= x >> 7
			x ^= x << 17
			fmt.Fprintf(&b, "%016x", x)
		}
		return b.String()[:width]
	}
	old, fresh := func(i int) string { return text(i, 1) }, func(i int) string { return text(i, 2) }
	c.Query(func(txn *column.Txn) error {
		for i := 0; i < n; i++ {
			txn.Insert(func(r column.Row) error { r.SetInt("n", i); r.SetString("s", old(i)); return nil })
		}
		return nil
	})
	fired := false
	column.SetVerifHook(func(point string, block uint32) {
		if point == "snapshot:pre-close" && !fired {
			fired = true
			c.Query(func(txn *column.Txn) error {
				s := txn.String("s")
				return txn.Range(func(idx uint32) { s.Set(fresh(int(idx))) })
			})
		}
	})
	var buf bytes.Buffer
	err := c.Snapshot(&buf)
	column.SetVerifHook(nil)
	if err != nil || !fired {
		t.Fatalf("Snapshot: %v (tail transaction ran: %v)", err, fired)
	}
	data := buf.Bytes()
	frames, streams := s2Frames(data)
	junction := len(data)
	if len(streams) >= 2 {
		junction = streams[1]
	}
	cuts := map[int]bool{0: true, len(data): true, len(data) - 1: true}
	for _, f := range append(frames, junction) {
		for d := -2; d <= 2; d++ {
			if f+d >= 0 && f+d <= len(data) {
				cuts[f+d] = true
			}
		}
	}
	for i := 1; i < 12; i++ {
		cuts[len(data)*i/12] = true
	}
	restoredNil, tailCuts := 0, 0
	for cut := range cuts {
		d := mk()
		rerr, bad := guarded(func() error { return d.Restore(deliver(data[:cut], len(data[:cut])>>2)) })
		if bad != "" {
			d.Close()
			t.Fatalf(prop+" violated: Restore of the first %d of %d bytes (state/log junction at %d): %s", cut, len(data), junction, bad)
		}
		if rerr != nil {
			d.Close()
			if prop == "C08" && cut == len(data) {
				t.Fatalf("C08 violated: Restore of the COMPLETE snapshot (%d bytes, taken while one transaction committed %d strings of %d bytes in three blocks) failed: %v", len(data), n, width, rerr)
			}
			continue
		}
		restoredNil++
		if cut > junction {
			tailCuts++
		}
		// every block all-old or all-new; new blocks form a prefix 0..k-1 of the commit order
		newBlocks := map[uint32]int{}
		rows := map[uint32]int{}
		msg := ""
		d.Query(func(txn *column.Txn) error {
			s, nn := txn.String("s"), txn.Int("n")
			return txn.Range(func(idx uint32) {
				v, ok := s.Get()
				id, okN := nn.Get()
				rows[idx>>14]++
				switch {
				case msg != "":
				case !ok || !okN || id != int(idx) || (v != old(int(idx)) && v != fresh(int(idx))):
					msg = fmt.Sprintf("row %d reads n=%d/%v s=%q/%v", idx, id, okN, v, ok)
				case v == fresh(int(idx)):
					newBlocks[idx>>14]++
				}
			})
		})
		if msg == "" && d.Count() != n {
			msg = fmt.Sprintf("Count()=%d, the snapshotted collection had %d rows", d.Count(), n)
		}
		for b := uint32(0); b < 3 && msg == ""; b++ {
			if newBlocks[b] != 0 && newBlocks[b] != rows[b] {
				msg = fmt.Sprintf("block %d holds %d rows with the new string and %d with the old one: part of a commit was applied", b, newBlocks[b], rows[b]-newBlocks[b])
			}
			if b > 0 && newBlocks[b] != 0 && newBlocks[b-1] == 0 {
				msg = fmt.Sprintf("block %d has the new strings but block %d (committed before it) has not: not a prefix of the logged commits", b, b-1)
			}
		}
		d.Close()
		if msg != "" {
			t.Fatalf(prop+" violated: Restore of the first %d of %d bytes (state/log junction at %d) returned nil, but %s", cut, len(data), junction, msg)
		}
	}
	RecordCase(prop, fmt.Sprintf("big snapshot: %d bytes, junction %d, %d s2 frames, %d cuts, %d restored without error (%d inside the log tail)", len(data), junction, len(frames), len(cuts), restoredNil, tailCuts), tailCuts > 0 || restoredNil > 1, "state-and-log-tail-over-1MiB")
	AddCounter(prop, "big_snapshot_cuts", int64(len(cuts)))
}
