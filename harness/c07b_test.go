package harness

import (
	"bytes"
	"fmt"
	"io"
	"strings"
	"testing"

	"github.com/kelindar/column"
	"github.com/klauspost/compress/s2"
	"pgregory.net/rapid"
)

// TestC07Boundary: the snapshot state is compressed in blocks of 1 MiB and the decoder hands out
// at most the rest of the current block per Read, so every field of the format (column name, int32,
// chunk header, payload) can be split over two reads exactly where a multiple of 1 MiB falls. The
// generator builds a schema with a wide padding column followed by 4..40 small columns of mixed
// types, measures the size of the uncompressed state and then sizes the padding so that a multiple
// of 1 MiB falls at a drawn byte of the region holding the small columns. The oracle is the
// generated content itself: Restore must succeed and every row must read back the generated values.
func TestC07Boundary(t *testing.T) {
	rapid.Check(t, func(t *rapid.T) {
		nsmall := rapid.IntRange(4, 40).Draw(t, "small-columns")
		kinds := make([]int, nsmall)
		names := make([]string, nsmall)
		for k := range kinds {
			kinds[k] = rapid.IntRange(0, 6).Draw(t, "kind")
			names[k] = fmt.Sprintf("c%02d", k) + strings.Repeat("n", rapid.IntRange(0, 9).Draw(t, "name-extra"))
		}
		rowsSmall := rapid.IntRange(1, 4).Draw(t, "rows-with-values")
		mark := rapid.IntRange(1, 2).Draw(t, "mark-MiB") << 20
		type cell struct {
			i int64
			s string
		}
		val := func(row, k int) cell {
			return cell{i: int64(1000 + 37*row + k), s: fmt.Sprintf("v%d.%d", row, k)}
		}
		schema := func() *column.Collection {
			c := column.NewCollection(column.Options{Capacity: 64, Vacuum: 24 * 3600 * 1e9})
			c.CreateColumn("pad", column.ForString())
			for k, kind := range kinds {
				switch kind {
				case 0:
					c.CreateColumn(names[k], column.ForInt16())
				case 1:
					c.CreateColumn(names[k], column.ForInt32())
				case 2:
					c.CreateColumn(names[k], column.ForUint64())
				case 3:
					c.CreateColumn(names[k], column.ForFloat64())
				case 4:
					c.CreateColumn(names[k], column.ForBool())
				case 5:
					c.CreateColumn(names[k], column.ForString())
				case 6:
					c.CreateColumn(names[k], column.ForEnum())
				}
			}
			return c
		}
		padLens := func(total int) []int {
			var out []int
			for total > 0 {
				n := 65000
				if total < n {
					n = total
				}
				out = append(out, n)
				total -= n
			}
			return out
		}
		build := func(padTotal int) (*column.Collection, []int) {
			c := schema()
			pads := padLens(padTotal)
			c.Query(func(txn *column.Txn) error {
				for row := 0; row < rowsSmall; row++ {
					txn.Insert(func(r column.Row) error {
						for k, kind := range kinds {
							v := val(row, k)
							switch kind {
							case 0:
								r.SetInt16(names[k], int16(v.i))
							case 1:
								r.SetInt32(names[k], int32(v.i))
							case 2:
								r.SetUint64(names[k], uint64(v.i))
							case 3:
								r.SetFloat64(names[k], float64(v.i)+0.5)
							case 4:
								r.SetBool(names[k], v.i%2 == 0)
							case 5:
								r.SetString(names[k], v.s)
							case 6:
								r.SetEnum(names[k], v.s)
							}
						}
						return nil
					})
				}
				for _, n := range pads {
					txn.Insert(func(r column.Row) error { r.SetString("pad", strings.Repeat("x", n)); return nil })
				}
				return nil
			})
			return c, pads
		}
		snapshot := func(c *column.Collection) ([]byte, int) {
			var buf bytes.Buffer
			if err := c.Snapshot(&buf); err != nil {
				t.Fatalf("Snapshot: %v", err)
			}
			data := buf.Bytes()
			_, streams := s2Frames(data)
			junction := len(data)
			if len(streams) >= 2 {
				junction = streams[1]
			}
			n, err := io.Copy(io.Discard, s2.NewReader(bytes.NewReader(data[:junction])))
			if err != nil {
				t.Fatalf("harness: cannot measure the state stream: %v", err)
			}
			return data, int(n)
		}
		// calibration: the small columns are the last ~u0 bytes of the state
		c0, _ := build(0)
		_, u0 := snapshot(c0)
		c0.Close()
		p1 := mark - 8192
		c1, _ := build(p1)
		_, u1 := snapshot(c1)
		c1.Close()
		x := rapid.IntRange(0, u0+16).Draw(t, "boundary-offset-from-end")
		src, pads := build(p1 + mark + x - u1)
		defer src.Close()
		data, u := snapshot(src)
		fromEnd := u - mark
		dst := schema()
		defer dst.Close()
		rerr, bad := guarded(func() error { return dst.Restore(bytes.NewReader(data)) })
		where := fmt.Sprintf("uncompressed state of %d bytes; the %d MiB mark falls %d bytes before its end, inside the region of the %d small columns (%d bytes)", u, mark>>20, fromEnd, nsmall, u0)
		if bad != "" || rerr != nil {
			t.Fatalf("C07 violated: Restore of an intact snapshot failed (%v %s); %s", rerr, bad, where)
		}
		if dst.Count() != rowsSmall+len(pads) {
			t.Fatalf("C07 violated: restored Count()=%d, snapshotted %d rows; %s", dst.Count(), rowsSmall+len(pads), where)
		}
		msg := ""
		dst.Query(func(txn *column.Txn) error {
			for idx := 0; idx < rowsSmall+len(pads) && msg == ""; idx++ {
				if err := txn.QueryAt(uint32(idx), func(r column.Row) error {
					pad, _ := r.String("pad")
					wantPad := 0
					if idx >= rowsSmall {
						wantPad = pads[idx-rowsSmall]
					}
					if len(pad) != wantPad || strings.Trim(pad, "x") != "" {
						msg = fmt.Sprintf("row %d: pad has %d bytes, want %d", idx, len(pad), wantPad)
						return nil
					}
					for k, kind := range kinds {
						v := val(idx, k)
						var got, want string
						var ok bool
						switch kind {
						case 0:
							g, o := r.Int16(names[k])
							got, ok, want = fmt.Sprint(g), o, fmt.Sprint(int16(v.i))
						case 1:
							g, o := r.Int32(names[k])
							got, ok, want = fmt.Sprint(g), o, fmt.Sprint(int32(v.i))
						case 2:
							g, o := r.Uint64(names[k])
							got, ok, want = fmt.Sprint(g), o, fmt.Sprint(uint64(v.i))
						case 3:
							g, o := r.Float64(names[k])
							got, ok, want = fmt.Sprint(g), o, fmt.Sprint(float64(v.i)+0.5)
						case 4:
							g := r.Bool(names[k])
							got, ok, want = fmt.Sprint(g), g, fmt.Sprint(v.i%2 == 0)
							if !g && v.i%2 != 0 {
								ok = false
							}
						case 5:
							g, o := r.String(names[k])
							got, ok, want = g, o, v.s
						case 6:
							g, o := r.Enum(names[k])
							got, ok, want = g, o, v.s
						}
						present := idx < rowsSmall
						if kind == 4 {
							present = present && v.i%2 == 0
						}
						if ok != present || (present && got != want) {
							msg = fmt.Sprintf("row %d column %s (kind %d): restored %q present=%v, snapshotted %q present=%v", idx, names[k], kind, got, ok, want, present)
							return nil
						}
					}
					return nil
				}); err != nil && msg == "" {
					msg = fmt.Sprintf("row %d is missing (%v)", idx, err)
				}
			}
			return nil
		})
		if msg != "" {
			t.Fatalf("C07 violated: %s; %s", msg, where)
		}
		nt := fromEnd >= 0 && fromEnd <= u0
		labels := []string{fmt.Sprintf("mark-%dMiB", mark>>20)}
		if nt {
			labels = append(labels, "MiB-mark-inside-small-columns")
		}
		RecordCase("C07", "boundary: "+where, nt, labels...)
	})
}
