"""Texts for MANIFEST.json (level claimed, trusted base, technique) per property."""

HOOK_COMMITS = ['eb8809f']
FIX_COMMITS = ['61faa54', '2e82d91', '4439b53', '6f67524', '2ca778f', 'fbf9934', 'b89b568', '23492cc', '001601a', '8d5bbd7', 'f1f1100', '6a69627', '5113772', 'd12f1c9', 'a5c24da', '1383b68', 'ae052e7', '05ab0b3', 'b45f07a', 'a9daa89', '2b61d49', 'e61f19a', 'fe6dad8', 'f732323']

NOT_APPLICABLE_REASON = {}

META = {'C01': {'text': 'Model-based stateful property testing: random histories over generated schemas are executed against the real collection and an '
                 'independent reference model; every committed value is read back through all public reader paths and compared bit-for-bit / '
                 'byte-for-byte. Exploration: bounded histories (<=3 blocks, ~30 actions) sampled, not exhaustive. A free-parallel part lets the '
                 'writers of different blocks commit at once and reads back at quiescence.',
         'design_ref': 'DESIGN.md §6 C01, §4 (model)',
         'note': 'Trusts the reference model (harness/model.go) as the statement of intended semantics; only the exported API is used.',
         'technique': 'model-based stateful property testing (rapid state machine) with reference-model oracle'},
 'C02': {'text': 'Model-based stateful property testing with a metamorphic twin (history minus rolled-back transactions), a recording logger and '
                 'in-flight observers (second transaction, snapshot+restore, own reads) at generated points. Exploration over bounded random '
                 'histories. The cooperative-scheduler run (TestSchedWriters) additionally requires the final state to be exactly the fold of the '
                 'committed transaction parts.',
         'design_ref': 'DESIGN.md §6 C02',
         'note': "Trusts the reference model; in-flight observers run on the transaction's own goroutine between steps, so latch-internal instants "
                 'are not observed here (C10 covers those).',
         'technique': 'model-based stateful property testing (rapid) + metamorphic twin + in-flight observation'},
 'C03': {'text': 'Model-based stateful property testing: indexes are created/dropped mid-history and compared with the model predicate after every '
                 'action, then again on replicas built from the recorded change stream and on restored snapshots. Exploration over bounded random '
                 'histories. A free-parallel part creates, drops and re-creates indexes while writers commit and compares at quiescence.',
         'design_ref': 'DESIGN.md §6 C03',
         'note': 'Trusts the reference model and the shared predicate evaluator (the same Go function evaluates the predicate for the model and '
                 'inside CreateIndex, on independently decoded values).',
         'technique': 'model-based stateful property testing (rapid) with reference-model oracle, on primary, stream replica and restored snapshot'},
 'C04': {'text': "Grammar-based query generation over model-generated data layouts; every query's selection, iteration order and all aggregates are "
                 'compared with an independent set-algebra evaluator. Exploration.',
         'design_ref': 'DESIGN.md §6 C04',
         'note': "Trusts the reference model's set algebra and the shared predicate functions (the same Go predicate is given to the filter and to "
                 'the model, on independently converted values).',
         'technique': 'grammar-based property testing (rapid) with differential oracle against a naive evaluator'},
 'C05': {'text': 'Generated-input search over the commit package only: every short op sequence over an 80-letter alphabet is enumerated exhaustively '
                 'and long sequences are drawn with rapid; each is compared op-for-op with the written list through every reader, Clone, the '
                 'buffer/commit codecs, Log append/range and the merge->put swap pass. Exploration, not proof: sequences beyond the bounds are '
                 'sampled, not covered.',
         'design_ref': 'DESIGN.md §6 C05',
         'note': "Trusts the harness's own list of written ops as oracle; format limits (offset < 2^31, strings <= 65535 bytes) are respected by the "
                 'generator.',
         'technique': 'property-based testing (rapid) + bounded exhaustive enumeration + native go fuzz, round-trip oracle'},
 'C06': {'text': 'Model-based stateful property testing with differential oracle primary/replica/model through both stream paths (channel clones, '
                 'serialized log), plus controlled-schedule exploration of concurrent writers. Exploration. A free-parallel part sends parallel '
                 'writers of different blocks into a serialized log whose framing is verified before a replica is fed from it.',
         'design_ref': 'DESIGN.md §6 C06',
         'note': 'Trusts the reference model; both replicas are also compared with it, so a defect common to primary and replica is still caught.',
         'technique': 'model-based stateful property testing (rapid) + differential replica oracle + controlled-schedule exploration'},
 'C07': {'text': 'Model-based stateful property testing with snapshot->restore->continue cycles inside the history; the restored collection replaces '
                 "the primary and must keep agreeing with the reference model, including the allocator's behaviour. Exploration over bounded random "
                 'histories.',
         'design_ref': 'DESIGN.md §6 C07',
         'note': 'Trusts the reference model; snapshots are taken and restored through in-memory buffers (bytes.Buffer).',
         'technique': 'model-based stateful property testing (rapid) with round-trip + reference-model oracle'},
 'C08': {'text': 'Controlled-schedule exploration of Snapshot racing with committing writers at every yield point of both protocols, with a '
                 'per-block prefix-consistency oracle computed from the recorded apply order and logical clocks; random schedules by rapid plus '
                 'bounded-exhaustive enumeration of small fixed configurations.',
         'design_ref': 'DESIGN.md §6 C08, §2.4',
         'note': "Trusts the recording logger's order as apply order and the scheduler's logical clock for 'acknowledged before' / 'applied before'; "
                 'windows inside latch-protected regions are not interleaved.',
         'technique': 'controlled-schedule exploration (cooperative scheduler, rapid + bounded-exhaustive DFS) with per-block prefix oracle'},
 'C09': {'text': 'Controlled-schedule exploration (random schedules by rapid + exhaustive enumeration of fixed configurations) with a '
                 'fold-in-apply-order oracle read from the recorded stream, plus free-parallel runs for commutative merges of every numeric kind. '
                 'Exploration; exhaustive only for the listed small configurations.',
         'design_ref': 'DESIGN.md §6 C09, §2.4',
         'note': "Trusts the recording logger's order as apply order (Append is called under the block latch) and the reference model's merge "
                 'functions.',
         'technique': 'controlled-schedule exploration (cooperative scheduler, rapid + bounded-exhaustive DFS) with history-fold oracle; '
                      'free-parallel stress for commutative merges'},
 'C10': {'text': 'Schedule exploration with the harness owning the instant of observation: the writer is parked inside a block commit (latch held) '
                 'at generated and exhaustively enumerated mid-apply points while readers of every style run; plus free-parallel hammering for '
                 'windows no yield point reaches. The per-row invariant is evaluated inside one callback.',
         'design_ref': 'DESIGN.md §6 C10, §2.4',
         'note': 'Trusts the workload invariant (every transaction writes a=v, b=-v, c=v); mid-apply points exist only between column buffers, '
                 "windows inside one buffer's apply loop are reached only by the free-parallel mode.",
         'technique': 'controlled-schedule exploration at latch-held yield points (rapid + exhaustive sweep) + free-parallel stress, invariant '
                      'oracle inside the read callback'},
 'C11': {'text': 'Model-based stateful property testing of the allocator over fill patterns built to hit every branch of the free-slot search, plus '
                 'generated concurrent insert/delete programs under real parallelism checked with unique tags. Exploration. The '
                 'cooperative-scheduler run (dense layouts) requires that no insert is handed an offset that still holds a live row when its commit '
                 'applies.',
         'design_ref': 'DESIGN.md §6 C11',
         'note': "Sequential part trusts the reference model; the parallel part's oracle (tags) is schedule-independent. In-flight visibility of "
                 'reservations is known finding f10 and not asserted here.',
         'technique': 'model-based stateful property testing (rapid) + generated concurrent programs with a history invariant'},
 'C12': {'text': 'Model-based stateful property testing of the key API against a reference map, with lookups of the whole key alphabet and a '
                 'duplicate scan after every transaction. Exploration over bounded random histories; concurrent interleavings are explored by '
                 'TestC12Sched when present. Concurrent parts: free-parallel key operations with a quiescent consistency oracle, and a deterministic '
                 'interleaved second writer inside transaction bodies.',
         'design_ref': 'DESIGN.md §6 C12',
         'note': 'Trusts the reference model. Two creating operations for one key in one transaction are known finding f17 and excluded by '
                 'construction (counted).',
         'technique': 'model-based stateful property testing (rapid) with reference-map oracle'},
 'C13': {'text': 'Fault enumeration over crash points: every (thorough) or every structurally interesting plus sampled (quick) truncation offset of '
                 'generated snapshot files with log tails and of commit-log streams is restored/ranged and the result compared with the set of '
                 'states the reference model allows at commit boundaries. A free-parallel part snapshots under real writers and requires every row '
                 'of every successfully restored prefix to satisfy a per-row invariant.',
         'design_ref': 'DESIGN.md §6 C13',
         'note': 'Trusts the reference model states recorded while the verif hooks drive transactions into the snapshot, and the s2 frame parser '
                 'used to place boundary offsets.',
         'technique': 'crash-point enumeration (truncation) with model-based prefix-consistency oracle (rapid-generated files)'},
 'C14': {'text': 'Fault enumeration: for each generated collection every write-call index and (for small snapshots) every byte budget at which the '
                 'destination starts failing is injected, fail-once and fail-forever, repeated on one collection to expose leaks, with error '
                 'reporting, continued usability, later healthy snapshots and fd/temp-file accounting checked after each call.',
         'design_ref': 'DESIGN.md §6 C14',
         'note': "Trusts the injecting writer's own record of whether it failed, /proc/self/fd and the private TMPDIR listing; the reference model "
                 'for the post-failure restore comparison.',
         'technique': 'fault injection with enumerated failure positions + model-based oracle (rapid-generated collections)'},
 'C15': {'text': 'Model-based stateful property testing of the emitted stream against the blocks the reference model says changed, plus stream-wide '
                 'ID invariants, through both a recording logger and a real commit.Channel; concurrent writers are explored under a cooperative '
                 'scheduler that owns the interleaving at commit-protocol yield points. Exploration. A snapshot part commits generated transactions '
                 'while a snapshot is in progress (driven by the hooks) and applies the same per-transaction oracle.',
         'design_ref': 'DESIGN.md §6 C15',
         'note': "Trusts the reference model for 'which blocks changed'; schedules are explored only at the yield points of the verif hooks.",
         'technique': 'model-based stateful property testing (rapid) + controlled-schedule exploration with history invariants'},
 'C16': {'text': 'Model-based stateful property testing of Ascend over generated histories with forced duplicate values and generated filters; '
                 'completeness, uniqueness, order and values are all compared with the reference model. Exploration.',
         'design_ref': 'DESIGN.md §6 C16',
         'note': 'Trusts the reference model; arbitrary filter chains are exercised by C04, here five filter shapes are combined with Ascend.',
         'technique': 'model-based stateful property testing (rapid) with reference-model oracle'},
 'C17': {'text': 'Generated TTL mixes against the real vacuum goroutine under concurrent load, with exact safety checks outside a guard band and a '
                 'generously bounded liveness check; also through snapshot/restore and replication. Exploration with wall-clock margins.',
         'design_ref': 'DESIGN.md §6 C17',
         'note': "Trusts the wall clock within the stated margins; deadlines are taken from SetTTL's return value and Extend's delta.",
         'technique': 'property-based testing (rapid-generated cases) with time-margin oracle against the real background cleanup'},
 'C18': {'text': 'Generated concurrent workloads under real parallelism in a race-detector build, with parsed and de-duplicated race reports '
                 'compared against the listed findings, and a per-goroutine deadlock watchdog; serialized-schedule hangs are reported by the '
                 'scheduler-based checks.',
         'design_ref': 'DESIGN.md §6 C18',
         'note': 'Trusts the Go race detector and the watchdog; absence of a report for a pair in one run is not evidence of absence.',
         'technique': 'generated concurrent programs (rapid) under the Go race detector + watchdog; report de-duplication by racing function pair'},
 'C19': {'text': 'Model-based stateful property testing: trigger callbacks are recorded and compared, per transaction, with the event list the '
                 'reference model derives (post-merge values, issue order per row, one call per delete, none for rollbacks or after drop). '
                 'Exploration.',
         'design_ref': 'DESIGN.md §6 C19',
         'note': "Trusts the reference model's merge semantics; values are decoded from the callback's Reader with the column's own width.",
         'technique': 'model-based stateful property testing (rapid) with reference-model oracle over callback histories'}}
