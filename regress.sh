#!/bin/bash
# full regression of every kept seeded change against the quick checks (scratch worktrees; /repo untouched)
cd "$(dirname "$0")" 2>/dev/null
for d in seeded/*/; do n=$(basename $d); python3 seedeval.py eval2 $n; done
