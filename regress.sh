#!/bin/bash
# regression of the kept seeded changes against the quick checks (scratch worktrees; /repo untouched)
# usage: ./regress.sh [glob under seeded/, default *]     - results: merge with mergeregress.py <snapshot dir>
cd "$(dirname "$0")" 2>/dev/null
pat=${1:-*}
for d in seeded/$pat/; do n=$(basename $d); python3 seedeval.py eval2 $n; done
