#!/usr/bin/env python3
"""Runs every registered check's quick (or thorough) command once and prints a one-line summary per property.
usage: sweep.py [quick|thorough] [IDs...]"""
import subprocess, sys, time, json, os
sys.path.insert(0, os.path.dirname(os.path.abspath(__file__)))
from checks import CHECKS
tier = sys.argv[1] if len(sys.argv) > 1 else "quick"
ids = sys.argv[2:] or sorted(CHECKS)
bad = 0
for pid in ids:
    t0 = time.time()
    p = subprocess.run([sys.executable, "run.py", pid, tier], cwd=os.path.dirname(os.path.abspath(__file__)), stdout=subprocess.PIPE, stderr=subprocess.STDOUT, text=True)
    lines = p.stdout.strip().splitlines()
    kf = sum(1 for l in lines if l.startswith("KNOWN-FINDING"))
    viol = [l for l in lines if l.startswith("VIOLATION")]
    last = lines[-1] if lines else ""
    print("%s exit=%d %.0fs known-findings=%d %s" % (pid, p.returncode, time.time() - t0, kf, (viol[0] if viol else last)[:200]), flush=True)
    if p.returncode != 0:
        bad += 1
        open("/tmp/sweep-%s.log" % pid, "w").write(p.stdout)
sys.exit(1 if bad else 0)
