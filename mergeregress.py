#!/usr/bin/env python3
"""Copies the detection results a background regression (vp run ./regress.sh) wrote into its snapshot back into /verif/seeded.
usage: mergeregress.py /root/.vp/runs/<n>/verif"""
import json, os, sys, glob
src = sys.argv[1]
n = 0
for d in sorted(glob.glob(os.path.join(src, "seeded", "*"))):
    name = os.path.basename(d)
    dst = os.path.join(os.path.dirname(os.path.abspath(__file__)), "seeded", name, "meta.json")
    if not os.path.exists(dst):
        continue
    a = json.load(open(os.path.join(d, "meta.json")))
    b = json.load(open(dst))
    det = a.get("detection") or {}
    new = {k: v for k, v in det.items() if "method" in v and v.get("exit") in (0, 1)}  # exit 2 = the run did not decide  # only results of this kind of run
    if new:
        b.setdefault("detection", {}).update(new)
        json.dump(b, open(dst, "w"), indent=1)
        n += 1
print("merged", n)
