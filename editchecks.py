#!/usr/bin/env python3
"""helper: load checks.py / manifest_meta.py, let a snippet mutate them, write them back in the canonical format.
usage: python3 editchecks.py <snippet.py>   (the snippet sees CHECKS and META)"""
import sys, pprint
def load(path):
    ns = {}
    exec(open(path).read(), ns)
    return ns
def main():
    c = load('checks.py'); m = load('manifest_meta.py')
    CHECKS, META = c['CHECKS'], m['META']
    exec(open(sys.argv[1]).read(), {'CHECKS': CHECKS, 'META': META, 'NA': m['NOT_APPLICABLE_REASON']})
    with open('checks.py', 'w') as f:
        f.write('"""Per-property table used by run.py: which harness tests decide a property, with what budgets."""\n\nCHECKS = ')
        f.write(pprint.pformat(dict(sorted(CHECKS.items())), width=150, sort_dicts=False))
        f.write('\n')
    with open('manifest_meta.py', 'w') as f:
        f.write('"""Texts for MANIFEST.json (level claimed, trusted base, technique) per property."""\n\n')
        f.write('HOOK_COMMITS = %r\nFIX_COMMITS = %r\n\nNOT_APPLICABLE_REASON = %s\n\nMETA = ' % (m['HOOK_COMMITS'], m.get('FIX_COMMITS', []), pprint.pformat(m['NOT_APPLICABLE_REASON'])))
        f.write(pprint.pformat(dict(sorted(META.items())), width=150, sort_dicts=False))
        f.write('\n')
main()
