#!/usr/bin/env python3
"""Regenerates the seeded-changes table at the end of DESIGN.md from seeded/*/meta.json."""
import json, glob, os, re
ROOT = os.path.dirname(os.path.abspath(__file__))
rows = []
for d in sorted(glob.glob(os.path.join(ROOT, "seeded", "*"))):
    m = json.load(open(os.path.join(d, "meta.json")))
    det = m.get("detection", {})
    caught = [p for p, r in det.items() if r.get("detected")]
    missed = [p for p, r in det.items() if not r.get("detected")]
    note = m.get("detection_note", "")
    rows.append("| %s | %s | %s | %s | %s | %s |" % (
        os.path.basename(d), m.get("property", ""), re.sub(r"\s+", " ", m.get("summary", ""))[:230].replace("|", "/"),
        re.sub(r"\s+", " ", m.get("needs", ""))[:200].replace("|", "/"),
        ", ".join("%s (quick, %ss)" % (p, det[p].get("wall_s")) for p in caught) or "-",
        (", ".join(missed) + (": " + note if note else "")) if missed or note else ""))
table = "\n".join(["<!-- seeded-table-begin -->", "",
    "| change | property | what was changed | what it needs to manifest | caught by | not caught by / note |", "|---|---|---|---|---|---|"] + rows + ["",
    "%d changes kept; %d caught by at least one quick check." % (len(rows), sum(1 for r in rows if "(quick" in r)), "", "<!-- seeded-table-end -->"])
s = open(os.path.join(ROOT, "DESIGN.md")).read()
if "<!-- seeded-table-begin -->" in s:
    s = re.sub(r"<!-- seeded-table-begin -->.*<!-- seeded-table-end -->", lambda _: table, s, flags=re.S)
else:
    s = s.rstrip() + "\n\n" + table + "\n"
open(os.path.join(ROOT, "DESIGN.md"), "w").write(s)
print(len(rows), "rows")
