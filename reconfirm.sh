#!/bin/bash
# every kept seeded change, applied to a scratch worktree of /repo's HEAD, must still compile and make its demonstration fail
export GOFLAGS=-mod=mod GOPROXY=off GOSUMDB=off GOTOOLCHAIN=local
cd "$(dirname "$0")"
ROOT=$(pwd)
for d in $ROOT/seeded/*/; do
  n=$(basename $d); wt=/tmp/rcf-$n
  git -C /repo worktree add -q --detach $wt HEAD || continue
  ( cd $wt
    if ! git apply $d/patch.diff 2>/dev/null; then echo "$n: PATCH DOES NOT APPLY"; exit; fi
    pk=$(python3 -c "import json;print(json.load(open('$d/meta.json'))['demo_package_dir'])")
    cp $d/demo_test.go ./$pk/zz_demo_test.go
    race=""; case $n in C18-*) race="-race";; esac
    if ! go build . ./commit 2>/dev/null; then echo "$n: DOES NOT BUILD"; exit; fi
    if go test $race -vet=off -count=1 -run 'TestSeededDemo$' ./$pk >/dev/null 2>&1; then echo "$n: DEMO PASSES WITH THE CHANGE (harmless now?)"; else echo "$n: ok (demo fails with the change)"; fi )
  git -C /repo worktree remove --force $wt
done
