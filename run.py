#!/usr/bin/env python3
"""Driver for the kelindar/column property checks (see DESIGN.md §2.6, §8).

usage: run.py <ID> quick|thorough
       run.py --replay <path>
       run.py --setup

Exit codes: 0 = property held on everything explored (KNOWN-FINDING lines possible),
            1 = violation ("VIOLATION property=<ID> replay=<path>" on stdout),
            2 = inconclusive (build failure, timeout, worker death).
"""
import glob
import json
import os
import re
import shutil
import subprocess
import sys
import time

ROOT = os.path.dirname(os.path.abspath(__file__))
HARNESS = os.path.join(ROOT, "harness")
CACHE = os.path.join(ROOT, ".cache")
# the two overrides exist for sensitivity experiments against scratch copies (seedeval.py); registered commands never set them
EVIDENCE = os.environ.get("VERIF_EVIDENCE_DIR") or os.path.join(ROOT, "evidence")
REPLAYS = os.environ.get("VERIF_REPLAYS_DIR") or os.path.join(ROOT, "replays")
KF_FILE = os.path.join(ROOT, "known_findings.txt")

sys.path.insert(0, ROOT)
from checks import CHECKS  # noqa: E402  (the per-property table)


def go_env():
    env = dict(os.environ)
    env.update({"GOFLAGS": "-mod=mod", "GOPROXY": "off", "GOSUMDB": "off", "GOTOOLCHAIN": "local",
                "CGO_ENABLED": env.get("CGO_ENABLED", "1")})
    return env


def seed_value():
    try:
        s = int(os.environ.get("VERIF_SEED", "1"))
    except ValueError:
        s = 1
    if s == 0:
        s = 0x5EED  # rapid treats 0 as "random": remap
    return abs(s)


def build(workdir, race=False):
    """Build the harness test binary from /repo's current working tree (replace directive)."""
    out = os.path.join(workdir, "harness.race.test" if race else "harness.test")
    cmd = ["go", "test", "-c", "-tags", "verif", "-o", out]
    if race:
        cmd.append("-race")
    cmd.append(".")
    repo = os.environ.get("VERIF_REPO")
    if repo:  # sensitivity experiments only: point the replace directive at a scratch copy
        modfile = os.path.join(workdir, "alt.mod")
        src = open(os.path.join(HARNESS, "go.mod")).read().replace("=> /repo", "=> " + repo)
        open(modfile, "w").write(src)
        shutil.copy(os.path.join(HARNESS, "go.sum"), os.path.join(workdir, "alt.sum"))
        cmd.insert(2, "-modfile=" + modfile)
    p = subprocess.run(cmd, cwd=HARNESS, env=go_env(), stdout=subprocess.PIPE, stderr=subprocess.STDOUT, text=True)
    if p.returncode != 0:
        print("BUILD FAILED:\n" + p.stdout)
        return None
    return out


def load_kf_lines():
    """slug -> (kind, line) from the committed known-findings file."""
    out = {}
    if not os.path.exists(KF_FILE):
        return out
    for line in open(KF_FILE):
        line = line.strip()
        if line.startswith("finding:"):
            m = re.search(r"\bkey=(\S+)", line)
            if m:
                out[m.group(1)] = line
    return out



def parse_race_reports(text):
    """DATA RACE reports -> {(funcA, funcB) sorted pair of innermost kelindar/column frames: (count, example)}"""
    out = {}
    for blk in text.split("WARNING: DATA RACE")[1:]:
        blk = blk.split("==================")[0]
        secs = re.split(r"\n(?=(?:Previous )?(?:[Rr]ead|[Ww]rite|atomic [a-z]+) at )", "\n" + blk)
        frames = []
        for sec in secs:
            head = sec.lstrip("\n")
            if not re.match(r"(?:Previous )?(?:[Rr]ead|[Ww]rite|atomic)", head):
                continue
            sec = re.split(r"\nGoroutine \d+", sec)[0]
            fn = None
            grow = False
            first = True
            for line in sec.splitlines()[1:]:
                if not line.startswith("  ") or line.startswith("      "):
                    continue
                if first:
                    first = False
                if "bitmap.(*Bitmap).grow" in line:
                    grow = True  # some frame below the first kelindar/column frame re-allocates a bitmap
                m = re.match(r"\s+(github\.com/kelindar/column\S*?)\(\)?\s*$", line) or re.match(r"\s+(github\.com/kelindar/column[^\s]*)\(", line)
                if m:
                    fn = m.group(1)
                    break
            if fn is None:
                fn = "(outside kelindar/column)"
            fn = re.sub(r"\[[^\]]*\]", "", fn)
            fn = re.sub(r"(\.func\d+)+(\.\d+)*$", "", fn)
            fn = fn.replace("github.com/kelindar/column", "column")
            if grow:
                fn = "grow>" + fn  # the access is a re-allocation of a bitmap (bitmap.grow) reached from fn
            frames.append(fn)
        if len(frames) >= 2:
            key = tuple(sorted(frames[:2]))
            cnt, ex = out.get(key, (0, blk[:3000]))
            out[key] = (cnt + 1, ex)
    return out


def load_race_findings():
    """finding lines of C18 carry race=<regex> (the unsynchronised mutator) and optionally other=<regex> (what the
    partner access may be): a report belongs to the finding if one side matches race= and the other side other=."""
    out = []
    if not os.path.exists(KF_FILE):
        return out
    for line in open(KF_FILE):
        line = line.strip()
        if line.startswith("finding:") and "property=C18" in line:
            k = re.search(r"\bkey=(\S+)", line)
            r = re.search(r"\brace=(\S+)", line)
            o = re.search(r"\bother=(\S+)", line)
            if k and r:
                out.append((k.group(1), re.compile(r.group(1)), line, re.compile(o.group(1)) if o else None))
    return out


class Proc:
    def __init__(self, name, cmd, env, cwd, log, timeout):
        self.name, self.cmd, self.log, self.timeout = name, cmd, log, timeout
        self.start = time.time()
        self.fh = open(log, "w")
        self.p = subprocess.Popen(cmd, env=env, cwd=cwd, stdout=self.fh, stderr=subprocess.STDOUT)
        self.timed_out = False

    def poll(self):
        rc = self.p.poll()
        if rc is None and time.time() - self.start > self.timeout:
            self.p.kill()
            self.p.wait()
            self.timed_out = True
            rc = -9
        if rc is not None:
            self.fh.close()
        return rc


def run_procs(specs, max_par):
    """specs: list of dict(name, cmd, env, cwd, log, timeout). Returns list of (spec, rc, timed_out)."""
    pending = list(specs)
    running, done = [], []
    while pending or running:
        while pending and len(running) < max_par:
            s = pending.pop(0)
            running.append((s, Proc(s["name"], s["cmd"], s["env"], s["cwd"], s["log"], s["timeout"])))
        time.sleep(0.05)
        still = []
        for s, pr in running:
            rc = pr.poll()
            if rc is None:
                still.append((s, pr))
            else:
                done.append((s, rc, pr.timed_out))
        running = still
    return done


def tail(path, n=60):
    try:
        lines = open(path, errors="replace").read().splitlines()
    except OSError:
        return ""
    return "\n".join(lines[-n:])


def save_replay(prop, src, test):
    os.makedirs(REPLAYS, exist_ok=True)
    stamp = time.strftime("%Y%m%d-%H%M%S")
    base = os.path.basename(src)
    if src.endswith(".fail"):
        dst = os.path.join(REPLAYS, "%s__%s__%s__%s" % (prop, test, stamp, base))
    else:
        dst = os.path.join(REPLAYS, "%s__%s" % (stamp, base))
    shutil.copy(src, dst)
    return dst


def merge_stats(files, prop):
    agg = {"evaluations": 0, "nontrivial": 0, "hashes": set(), "labels": {}, "samples": [], "excluded": {},
           "exhaustive": {}, "notes": [], "counters": {}}
    kf = {}
    for f in files:
        try:
            data = json.load(open(f))
        except (OSError, ValueError):
            continue
        for st in data.get("known_findings") or []:
            cur = kf.get(st["slug"])
            if cur is None or (st["checked"] and not cur["checked"]):
                kf[st["slug"]] = st
        ps = (data.get("props") or {}).get(prop)
        if not ps:
            continue
        agg["evaluations"] += ps.get("evaluations", 0)
        agg["nontrivial"] += ps.get("nontrivial", 0)
        agg["hashes"].update(ps.get("hashes") or [])
        for k, v in (ps.get("labels") or {}).items():
            agg["labels"][k] = agg["labels"].get(k, 0) + v
        for k, v in (ps.get("excluded") or {}).items():
            agg["excluded"][k] = agg["excluded"].get(k, 0) + v
        for k, v in (ps.get("counters") or {}).items():
            agg["counters"][k] = agg["counters"].get(k, 0) + v
        for k, v in (ps.get("exhaustive") or {}).items():
            agg["exhaustive"][k] = agg["exhaustive"].get(k, True) and v
        for n in ps.get("notes") or []:
            if n not in agg["notes"]:
                agg["notes"].append(n)
        for s in ps.get("samples") or []:
            if len(agg["samples"]) < 6:
                agg["samples"].append(s)
    return agg, kf


def write_evidence(prop, tier, seed, spec, agg, wall, violations, extra):
    os.makedirs(EVIDENCE, exist_ok=True)
    cov = {
        "evaluations": agg["evaluations"],
        "distinct_nontrivial": len(agg["hashes"]),
        "nontrivial_total": agg["nontrivial"],
        "rule": spec["rule"],
        "samples": agg["samples"],
        "labels": agg["labels"],
        "excluded_by_known_finding": agg["excluded"],
        "counters": agg["counters"],
    }
    if agg["exhaustive"]:
        cov["exhaustive"] = all(agg["exhaustive"].values())
        cov["exhaustive_over"] = sorted(agg["exhaustive"].keys())
    if agg["notes"]:
        cov["notes"] = agg["notes"]
    cov.update(extra)
    ev = {
        "property_id": prop,
        "tier": tier,
        "seed": seed,
        "level": spec["level"],
        "coverage": cov,
        "assumptions": spec.get("assumptions", []),
        "wall_s": round(wall, 2),
        "violations": violations,
    }
    tmp = os.path.join(EVIDENCE, ".%s.json.tmp%d" % (prop, os.getpid()))
    json.dump(ev, open(tmp, "w"), indent=1)
    os.replace(tmp, os.path.join(EVIDENCE, prop + ".json"))


def base_env(workdir, tag, tier, seed):
    env = go_env()
    tmp = os.path.join(workdir, "tmp-" + tag)
    os.makedirs(tmp, exist_ok=True)
    cwd = os.path.join(workdir, "cwd-" + tag)
    os.makedirs(cwd, exist_ok=True)
    rep = os.path.join(workdir, "replays")
    os.makedirs(rep, exist_ok=True)
    env.update({"TMPDIR": tmp, "VERIF_TIER": tier, "VERIF_SEED": str(seed), "VERIF_REPLAY_DIR": rep,
                "VERIF_KF_FILE": KF_FILE, "VERIF_STATS": os.path.join(workdir, "stats-%s.json" % tag),
                "GORACE": "halt_on_error=0 history_size=3 log_path=%s" % os.path.join(workdir, "race-" + tag), "GOMAXPROCS": env.get("GOMAXPROCS", "16")})
    return env, cwd


def run_check(prop, tier):
    if prop not in CHECKS:
        print("unknown property", prop)
        return 2
    spec = CHECKS[prop]
    seed = seed_value()
    t0 = time.time()
    workdir = os.path.join(CACHE, "run-%s-%d" % (prop, os.getpid()))
    shutil.rmtree(workdir, ignore_errors=True)
    os.makedirs(workdir)
    try:
        return _run_check(prop, tier, spec, seed, t0, workdir)
    finally:
        shutil.rmtree(workdir, ignore_errors=True)


def _run_check(prop, tier, spec, seed, t0, workdir):
    need_race = any(t.get("race") for t in spec["tests"])
    need_plain = any(not t.get("race") for t in spec["tests"]) or True
    bins = {}
    if need_plain:
        bins[False] = build(workdir, race=False)
        if not bins[False]:
            return 2
    if need_race:
        bins[True] = build(workdir, race=True)
        if not bins[True]:
            return 2

    violations = []  # (replay path, text)
    inconclusive = []
    stats_files = []

    # --- phase 1: reproductions of known findings touching this property ---------
    env, cwd = base_env(workdir, "kf", tier, seed)
    env["VERIF_KF_PROP"] = prop
    log = os.path.join(workdir, "kf.log")
    res = run_procs([dict(name="kf", cmd=[bins[False], "-test.run", "^TestKF$", "-test.v", "-test.timeout", "300s"],
                          env=env, cwd=cwd, log=log, timeout=330)], 1)
    stats_files.append(env["VERIF_STATS"])
    if res[0][1] != 0:
        inconclusive.append("known-finding reproductions did not run cleanly:\n" + tail(log))
    listed = load_kf_lines()
    _, kf = merge_stats(stats_files, prop)
    for slug, st in sorted(kf.items()):
        if prop not in st["property"].split(","):
            continue
        if st["checked"] and st["failed"] and slug not in listed:
            # a repaired (or never listed) defect is back: plain violation
            rp = os.path.join(workdir, "replays", "%s__TestKFReplay__%s.json" % (prop, slug))
            json.dump({"property": prop, "test": "TestKFReplay", "slug": slug, "detail": st["detail"]}, open(rp, "w"), indent=1)
            violations.append((save_replay(prop, rp, "TestKFReplay"), "reproduction %s fails and is not a listed finding: %s" % (slug, st["detail"][:500])))

    # --- phase 2: the generated search -----------------------------------------------
    specs = []
    for ti, t in enumerate(spec["tests"]):
        if tier == "quick" and t.get("thorough_only"):
            continue
        if tier == "thorough" and t.get("quick_only"):
            continue
        if t.get("fuzz"):
            tag = "t%d-fuzz" % ti
            env, cwd = base_env(workdir, tag, tier, seed)
            env.pop("VERIF_STATS", None)  # fuzz workers are processes of the same binary
            ftime = t.get("fuzztime", {}).get(tier, "30s")
            cmd = ["go", "test", "-tags", "verif", "-run", "^$", "-fuzz", "^%s$" % t["fuzz"], "-fuzztime", ftime, "."]
            if os.environ.get("VERIF_REPO"):
                modfile = os.path.join(workdir, "alt.mod")
                cmd.insert(2, "-modfile=" + modfile)
            timeout = t.get("timeout", {}).get(tier, 1800)
            specs.append(dict(name=tag, test=t, cmd=cmd, env=env, cwd=HARNESS, log=os.path.join(workdir, tag + ".log"),
                              timeout=timeout, stats=os.path.join(workdir, "none.json"), checks=None))
            continue
        shards = t.get("shards", {}).get(tier, 1)
        checks = t.get("checks", {}).get(tier)
        for sh in range(shards):
            tag = "t%d-s%d" % (ti, sh)
            env, cwd = base_env(workdir, tag, tier, seed)
            env["VERIF_SHARD"] = str(sh)
            env["VERIF_SHARDS"] = str(shards)
            for k, v in (t.get("env") or {}).items():
                env[k] = str(v[tier] if isinstance(v, dict) else v)
            timeout = t.get("timeout", {}).get(tier, 900 if tier == "quick" else 3600)
            cmd = [bins[bool(t.get("race"))], "-test.run", t["run"], "-test.v", "-test.timeout", "%ds" % timeout]
            if checks is not None:
                rseed = (seed * 1000003 + ti * 7919 + sh * 104729) % (2 ** 62) or 1
                cmd += ["-rapid.checks=%d" % checks, "-rapid.seed=%d" % rseed, "-rapid.shrinktime=%s" % t.get("shrinktime", "30s"), "-rapid.nofailfile=false"]
            specs.append(dict(name=tag, test=t, cmd=cmd, env=env, cwd=cwd, log=os.path.join(workdir, tag + ".log"),
                              timeout=timeout + 30, stats=env["VERIF_STATS"], checks=checks))
    max_par = int(os.environ.get("VERIF_PAR", "16"))
    for sp in specs:
        max_par = min(max_par, int(sp["test"].get("par", max_par)))
    results = run_procs(specs, max(1, max_par))
    short_runs = []
    fuzz_execs = [0]
    for s, rc, timed_out in results:
        stats_files.append(s["stats"])
        out = tail(s["log"], 400)
        if rc == 0:
            if s["checks"] is not None:
                for m in re.finditer(r"\[rapid\] OK, passed (\d+) tests", out):
                    if int(m.group(1)) < s["checks"]:
                        short_runs.append("%s: %s of %d" % (s["name"], m.group(1), s["checks"]))
            continue
        if timed_out or "panic: test timed out" in out:
            inconclusive.append("%s timed out\n%s" % (s["name"], tail(s["log"], 30)))
            continue
        if s["test"].get("fuzz"):
            full = open(s["log"], errors="replace").read()
            execs = [int(m.group(1)) for m in re.finditer(r"execs: (\d+)", full)]
            fuzz_execs[0] += max(execs) if execs else 0
            crash_dir = os.path.join(HARNESS, "testdata", "fuzz", s["test"]["fuzz"])
            crashers = sorted(glob.glob(os.path.join(crash_dir, "*")), key=os.path.getmtime) if os.path.isdir(crash_dir) else []
            if rc != 0 and crashers:
                os.makedirs(REPLAYS, exist_ok=True)
                dst = os.path.join(REPLAYS, "%s__%s__%s__%s.fuzz" % (prop, s["test"]["fuzz"], time.strftime("%Y%m%d-%H%M%S"), os.path.basename(crashers[-1])))
                shutil.move(crashers[-1], dst)
                shutil.rmtree(os.path.join(HARNESS, "testdata"), ignore_errors=True)
                violations.append((dst, "\n".join(l for l in full.splitlines() if "violated" in l or "FAIL" in l)[:2000]))
            elif rc != 0:
                inconclusive.append("%s (native fuzz) exited with %s\n%s" % (s["name"], rc, tail(s["log"], 30)))
            continue
        if s["test"].get("race"):
            full = open(s["log"], errors="replace").read()
            if "C18-VIOLATION" in full:
                lg = os.path.join(workdir, "replays", "%s__log__%s.txt" % (prop, s["name"]))
                shutil.copy(s["log"], lg)
                violations.append((save_replay(prop, lg, "log"), "\n".join(l for l in full.splitlines() if "C18-VIOLATION" in l)[:2000]))
            elif rc not in (0, 1):
                inconclusive.append("%s exited with %s\n%s" % (s["name"], rc, tail(s["log"], 40)))
            continue
        if "WATCHDOG-VIOLATION" in open(s["log"], errors="replace").read():
            # a call into the library that never returned (sequential history): the harness watchdog ended the process
            full = open(s["log"], errors="replace").read()
            lg = os.path.join(workdir, "replays", "%s__hang__%s.txt" % (prop, s["name"]))
            open(lg, "w").write(full[-200000:])
            violations.append((save_replay(prop, lg, "log"), "\n".join(l for l in full.splitlines() if "WATCHDOG-VIOLATION" in l)[:2000]))
            continue
        if rc == 1 and "--- FAIL" in out:
            # a real test failure: find its replay file
            fails = glob.glob(os.path.join(s["cwd"], "testdata", "rapid", "**", "*.fail"), recursive=True)
            reps = sorted(glob.glob(os.path.join(workdir, "replays", "*.json")), key=os.path.getmtime)
            text = "\n".join(l for l in out.splitlines() if not re.search(r"\[rapid\] draw ", l))[-3000:]
            if fails:
                test = os.path.basename(os.path.dirname(fails[0]))
                violations.append((save_replay(prop, fails[0], test), text))
            elif reps:
                violations.append((save_replay(prop, reps[-1], "json"), text))
                for r in reps:
                    os.remove(r)
            else:
                lg = os.path.join(workdir, "replays", "%s__log__%s.txt" % (prop, s["name"]))
                shutil.copy(s["log"], lg)
                violations.append((save_replay(prop, lg, "log"), text))
            continue
        inconclusive.append("%s exited with %s\n%s" % (s["name"], rc, tail(s["log"], 40)))

    race_pairs = {}
    for f in glob.glob(os.path.join(workdir, "race-*")):
        for key, (cnt, ex) in parse_race_reports(open(f, errors="replace").read()).items():
            c0, e0 = race_pairs.get(key, (0, ex))
            race_pairs[key] = (c0 + cnt, e0)
    race_known = {}
    if race_pairs or any(t.get("race") for t in spec["tests"]):
        findings = load_race_findings()
        for key, (cnt, ex) in sorted(race_pairs.items()):
            hit = None
            for slug, rx, line, other in findings:
                if (rx.search(key[0]) and (other is None or other.search(key[1]))) or (rx.search(key[1]) and (other is None or other.search(key[0]))):
                    hit = slug
                    break
            if hit:
                race_known.setdefault(hit, []).append("%s <-> %s (x%d)" % (key[0], key[1], cnt))
            else:
                rp = os.path.join(workdir, "replays", "%s__race__%d.txt" % (prop, len(violations)))
                open(rp, "w").write("unlisted data race: %s <-> %s (%d reports)\n\nWARNING: DATA RACE%s" % (key[0], key[1], cnt, ex))
                violations.append((save_replay(prop, rp, "race"), "data race between %s and %s (%d reports) is not a listed finding" % (key[0], key[1], cnt)))
        for slug, rx, line, other in findings:
            if slug in race_known:
                print("KNOWN-FINDING: property=%s key=%s %s [observed: %s]" % (prop, slug, re.sub(r"^finding:\s*property=\S+\s+key=\S+\s+race=\S+\s*(other=\S+\s*)?", "", line)[:400], "; ".join(race_known[slug][:4])))
    agg, kf = merge_stats(stats_files, prop)
    # every listed finding whose reproduction still fails and whose switch this run consulted
    for slug, st in sorted(kf.items()):
        if st["checked"] and st["failed"] and slug in listed:
            print("KNOWN-FINDING: property=%s key=%s %s [reproduction: %s]" % (prop, slug, st["what"], st["detail"][:300].replace("\n", " | ")))
    extra = {"processes": len(specs), "tests": [t["run"] for t in spec["tests"]]}
    if fuzz_execs[0]:
        extra["native_fuzz_execs"] = fuzz_execs[0]
        extra["native_fuzz_note"] = "coverage-guided go test -fuzz campaign; not seedable, the saved crasher is the reproducible unit; its executions are not included in evaluations"
    if race_pairs:
        extra["race_reports"] = {"%s <-> %s" % k: v[0] for k, v in sorted(race_pairs.items())}
        extra["race_reports_by_known_finding"] = race_known
    if short_runs:
        extra["short_rapid_runs"] = short_runs
    if inconclusive:
        extra["inconclusive"] = [i[:500] for i in inconclusive]
    known = sorted(slug for slug, st in kf.items() if st["checked"] and st["failed"] and slug in listed)
    if known:
        extra["known_findings_active"] = known
    write_evidence(prop, tier, seed, spec, agg, time.time() - t0, len(violations), extra)

    for path, text in violations:
        print(text)
        try:
            # the message stays on disk beside the replay: a caller that only keeps the last line of
            # this output (sweep.py, a CI log that is cut) must not lose what was violated
            open(path + ".message.txt", "w").write(text + "\n")
        except OSError:
            pass
        print("VIOLATION property=%s replay=%s" % (prop, path))
    if violations:
        return 1
    if inconclusive:
        for i in inconclusive:
            print("INCONCLUSIVE:", i)
        return 2
    print("OK property=%s tier=%s seed=%d evaluations=%d distinct_nontrivial=%d wall=%.1fs" % (
        prop, tier, seed, agg["evaluations"], len(agg["hashes"]), time.time() - t0))
    return 0


def run_replay(path):
    path = os.path.abspath(path)
    base = os.path.basename(path)
    workdir = os.path.join(CACHE, "replay-%d" % os.getpid())
    shutil.rmtree(workdir, ignore_errors=True)
    os.makedirs(workdir)
    try:
        race = False
        if path.endswith(".fail"):
            parts = base.split("__")
            prop, test = parts[0], parts[1]
            args = ["-test.run", "^%s$" % test, "-rapid.failfile=" + path]
        elif path.endswith(".fuzz"):
            parts = base.split("__")
            prop, fname = parts[0], parts[1]
            d = os.path.join(HARNESS, "testdata", "fuzz", fname)
            os.makedirs(d, exist_ok=True)
            shutil.copy(path, os.path.join(d, "replay"))
            try:
                p = subprocess.run(["go", "test", "-tags", "verif", "-count=1", "-run", "^%s$/replay" % fname, "."], cwd=HARNESS, env=go_env(),
                                   stdout=subprocess.PIPE, stderr=subprocess.STDOUT, text=True)
            finally:
                shutil.rmtree(os.path.join(HARNESS, "testdata"), ignore_errors=True)
            print(p.stdout[-4000:])
            if p.returncode == 0:
                print("REPLAY PASSES property=%s (the saved input no longer fails)" % prop)
                return 0
            print("VIOLATION property=%s replay=%s" % (prop, path))
            return 1
        elif path.endswith(".json"):
            data = json.load(open(path))
            prop, test = data["property"], data["test"]
            race = bool(data.get("race"))
            args = ["-test.run", "^%s$" % test]
        else:
            print("replay: this file is a log of a failing run, not a machine-replayable case:", path)
            return 2
        binp = build(workdir, race=race)
        if not binp:
            return 2
        env, cwd = base_env(workdir, "replay", "quick", seed_value())
        env["VERIF_REPLAY_FILE"] = path
        p = subprocess.run([binp] + args + ["-test.v", "-test.timeout", "600s"], env=env, cwd=cwd,
                           stdout=subprocess.PIPE, stderr=subprocess.STDOUT, text=True)
        out = "\n".join(l for l in p.stdout.splitlines() if not re.search(r"\[rapid\] draw ", l))
        print(out[-4000:])
        if p.returncode == 0:
            print("REPLAY PASSES property=%s (the saved case no longer fails)" % prop)
            return 0
        if p.returncode == 1:
            print("VIOLATION property=%s replay=%s" % (prop, path))
            return 1
        return 2
    finally:
        shutil.rmtree(workdir, ignore_errors=True)


def setup():
    """Warm the Go build cache (plain and race) so that the first check does not pay for it."""
    workdir = os.path.join(CACHE, "setup-%d" % os.getpid())
    os.makedirs(workdir, exist_ok=True)
    try:
        ok = build(workdir, race=False) and build(workdir, race=True)
        return 0 if ok else 2
    finally:
        shutil.rmtree(workdir, ignore_errors=True)


def main(argv):
    if len(argv) >= 2 and argv[1] == "--setup":
        return setup()
    if len(argv) >= 3 and argv[1] == "--replay":
        return run_replay(argv[2])
    if len(argv) >= 3 and argv[2] in ("quick", "thorough"):
        return run_check(argv[1], argv[2])
    print(__doc__)
    return 2


if __name__ == "__main__":
    sys.exit(main(sys.argv))
