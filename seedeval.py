#!/usr/bin/env python3
"""Confirms seeded mutants delivered in /tmp/seed-<ID>/m<i>/ and evaluates the checks against them.

usage: seedeval.py confirm <ID> <i>       -> confirms in a scratch worktree, stores under /verif/seeded/<ID>-m<i>/
       seedeval.py eval <ID>-m<i> [PROP..] -> applies the patch to /repo, runs the quick checks, restores /repo
       seedeval.py eval2 <ID>-m<i> [PROP..] -> the same against a scratch worktree (VERIF_REPO); /repo and /verif/evidence are not touched
"""
import json, os, shutil, subprocess, sys, time
ROOT = os.path.dirname(os.path.abspath(__file__))
ENV = dict(os.environ, GOFLAGS="-mod=mod", GOPROXY="off", GOSUMDB="off", GOTOOLCHAIN="local")

def sh(cmd, cwd=None, timeout=1800):
    p = subprocess.run(cmd, shell=True, cwd=cwd, env=ENV, stdout=subprocess.PIPE, stderr=subprocess.STDOUT, text=True, timeout=timeout)
    return p.returncode, p.stdout

def demo_dir(demo_path):
    src = open(demo_path).read()
    return "commit" if "\npackage commit" in "\n" + src else "."

def confirm(pid, i, rnd=""):
    src = "/tmp/seed-%s/m%s" % (pid, i)
    name = "%s-%sm%s" % (pid, rnd, i)
    wt = "/tmp/conf-%s" % name
    sh("git -C /repo worktree remove --force %s" % wt)
    rc, out = sh("git -C /repo worktree add -q --detach %s HEAD" % wt)
    assert rc == 0, out
    res = {}
    try:
        rc, out = sh("git apply %s/patch.diff" % src, cwd=wt)
        res["applies"] = rc == 0
        if rc != 0:
            res["apply_error"] = out[-500:]
            return res
        rc, out = sh("go build . ./commit && go test -vet=off -count=1 . ./commit", cwd=wt)
        res["suite_passes_with_mutant"] = rc == 0
        d = demo_dir(src + "/demo_test.go")
        race = "-race " if pid == "C18" and "go test -race" in open(src + "/meta.json").read() else ""
        res["demo_run_with_race_detector"] = bool(race)
        shutil.copy(src + "/demo_test.go", os.path.join(wt, d, "zz_seeded_demo_test.go"))
        fails = 0
        for k in range(3):
            rc, out = sh("go test %s-vet=off -count=1 -run 'TestSeededDemo$' ./%s" % (race, d), cwd=wt, timeout=600)
            fails += rc != 0
        res["demo_fails_with_mutant"] = "%d/3" % fails
        sh("git apply -R %s/patch.diff" % src, cwd=wt)
        passes = 0
        for k in range(3):
            rc, out = sh("go test %s-vet=off -count=1 -run 'TestSeededDemo$' ./%s" % (race, d), cwd=wt, timeout=600)
            passes += rc == 0
        res["demo_passes_without_mutant"] = "%d/3" % passes
        res["confirmed"] = res["suite_passes_with_mutant"] and fails == 3 and passes == 3
        if res["confirmed"]:
            dst = os.path.join(ROOT, "seeded", name)
            os.makedirs(dst, exist_ok=True)
            for f in ("patch.diff", "demo_test.go"):
                shutil.copy(os.path.join(src, f), dst)
            meta = json.load(open(os.path.join(src, "meta.json")))
            meta["confirmed_by_me"] = {k: v for k, v in res.items()}
            meta["confirmed_at_repo_commit"] = subprocess.check_output(["git", "-C", "/repo", "log", "--format=%h", "-1"], text=True).strip()
            meta["demo_package_dir"] = d
            json.dump(meta, open(os.path.join(dst, "meta.json"), "w"), indent=1)
        return res
    finally:
        sh("git -C /repo worktree remove --force %s" % wt)

def evaluate(name, props):
    dst = os.path.join(ROOT, "seeded", name)
    meta = json.load(open(os.path.join(dst, "meta.json")))
    props = props or [meta["property"]]
    rc, out = sh("git -C /repo status --porcelain")
    assert out.strip() == "", "repo not clean: " + out
    rc, out = sh("git -C /repo apply %s/patch.diff" % dst)
    assert rc == 0, out
    results = meta.get("detection", {})
    try:
        for p in props:
            t0 = time.time()
            rc, out = sh("python3 run.py %s quick" % p, cwd=ROOT, timeout=3600)
            viol = [l for l in out.splitlines() if l.startswith("VIOLATION")]
            results[p] = {"exit": rc, "detected": rc == 1 and bool(viol), "wall_s": round(time.time() - t0), "tier": "quick",
                          "first_violation_text": next((l for l in out.splitlines() if "violated" in l), "")[:400]}
            print(name, p, "exit=%d detected=%s %ds" % (rc, results[p]["detected"], results[p]["wall_s"]), results[p]["first_violation_text"][:160], flush=True)
    finally:
        sh("git -C /repo checkout -- .")
        sh("git -C /repo clean -fdq")
        # evidence written while a seeded change was applied says nothing about the real tree
        sh("git -C %s checkout -- evidence" % ROOT)
        # violation replays produced against a mutant are not evidence about the real tree
        for f in os.listdir(os.path.join(ROOT, "replays")):
            if time.time() - os.path.getmtime(os.path.join(ROOT, "replays", f)) < 4000 and not f.startswith("keep"):
                os.remove(os.path.join(ROOT, "replays", f))
    meta["detection"] = results
    json.dump(meta, open(os.path.join(dst, "meta.json"), "w"), indent=1)

def evaluate_scratch(name, props):
    """Like evaluate, but /repo is never touched: the change is applied to a scratch worktree and the driver is pointed at it
    (VERIF_REPO); evidence and replays of the run go to a scratch directory."""
    dst = os.path.join(ROOT, "seeded", name)
    meta = json.load(open(os.path.join(dst, "meta.json")))
    props = props or [meta["property"]]
    wt = "/tmp/ev-%s" % name
    scratch = "/tmp/evd-%s" % name
    sh("git -C /repo worktree remove --force %s" % wt)
    rc, out = sh("git -C /repo worktree add -q --detach %s HEAD" % wt)
    assert rc == 0, out
    results = meta.get("detection", {})
    try:
        rc, out = sh("git apply %s/patch.diff" % dst, cwd=wt)
        assert rc == 0, out
        for p in props:
            t0 = time.time()
            env = "VERIF_REPO=%s VERIF_EVIDENCE_DIR=%s/evidence VERIF_REPLAYS_DIR=%s/replays" % (wt, scratch, scratch)
            rc, out = sh("%s python3 run.py %s quick" % (env, p), cwd=ROOT, timeout=3600)
            viol = [l for l in out.splitlines() if l.startswith("VIOLATION")]
            results[p] = {"exit": rc, "detected": rc == 1 and bool(viol), "wall_s": round(time.time() - t0), "tier": "quick",
                          "method": "change applied to a scratch worktree, driver pointed at it with VERIF_REPO",
                          "first_violation_text": next((l for l in out.splitlines() if "violated" in l or "C18-VIOLATION" in l), "")[:400]}
            print(name, p, "exit=%d detected=%s %ds" % (rc, results[p]["detected"], results[p]["wall_s"]), results[p]["first_violation_text"][:200], flush=True)
            if rc not in (0, 1):
                print(out[-1500:])
    finally:
        sh("git -C /repo worktree remove --force %s" % wt)
        shutil.rmtree(scratch, ignore_errors=True)
    meta["detection"] = results
    json.dump(meta, open(os.path.join(dst, "meta.json"), "w"), indent=1)

if sys.argv[1] == "confirm":
    print(sys.argv[2], sys.argv[3], json.dumps(confirm(sys.argv[2], sys.argv[3], sys.argv[4] if len(sys.argv) > 4 else "")))
elif sys.argv[1] == "eval":
    evaluate(sys.argv[2], sys.argv[3:])
elif sys.argv[1] == "eval2":
    evaluate_scratch(sys.argv[2], sys.argv[3:])
