"""Per-property table used by run.py: which harness tests decide a property, with what budgets."""

CHECKS = {'C01': {'level': 'exploration',
         'rule': 'model-based stateful histories (rapid t.Repeat): generated schema (1..6 columns from all 14 value kinds + optional key column, '
                 'late columns, custom merge functions, every Capacity option) and actions {txn of 1..12 steps (update/insert/delete/own-insert '
                 'update; puts and merges through 5 writer paths), prefill (1..70, word sizes, 16384+-3, ~33000 rows), patterned bulk delete, create '
                 'late column}; oracle = independent in-memory reference model; after every transaction Count and every touched row through two of '
                 'four reader paths, full Range dump when <=200 rows, full dumps at the end (typed and Any readers, point reads). non-trivial = the '
                 'final state is non-empty and the history has >=1 of {row in block>=1, offset reused after delete, >=2 writes to one row+column in '
                 'one txn, descending offsets in one txn, late column written}; distinct = hash of the full action trace | parallel part '
                 '(TestC01Parallel): the writers of 2..4 DIFFERENT blocks commit fresh enum strings, strings, ints and records on their own rows at '
                 'the same time; at quiescence every row must read back exactly what its owner committed last (schedule-independent oracle) | added '
                 'later: histories contain rolled-back transactions between the committed ones, row callbacks may end with a nested read-only '
                 'QueryAt of another row (moves the transaction cursor), bulk deletes also run [With/Without(name);] DeleteAll, and one history in '
                 'eight STARTS on a collection whose Restore from a truncated multi-block snapshot failed (the model starts from whatever Restore '
                 'left behind) | since round 5: transaction bodies that PANIC between two steps (caller recovers) after update/delete-only prefixes '
                 '- nothing of them may ever become visible | since round 6: every sequential history runs under a heartbeat watchdog (a step that '
                 'makes no progress for 300 s ends the process with a WATCHDOG-VIOLATION line: with one goroutine at work that is a lock which is '
                 'never released); callbacks of operations on EXISTING rows may fail too (the call reports the error, the stores stay buffered and '
                 'commit); the harness record codec has an optional field that its decoder leaves alone when absent (like encoding/json with omitted '
                 'fields); string columns may use a "set or append" merge that returns a sub-slice of its delta | zigzag histories (since fix f30): '
                 'merge into a row, write the same column of a row in another block, come back to the first row (merge, then perhaps a put) on a '
                 'column whose merge changes the length; the f15 exclusion is NOT applied in this check (it has no indexes, triggers, loggers or '
                 'replicas) | since round 7: DropColumn of a value column and its later re-creation under the same name (nothing of the former '
                 'values may show), dropped index names that come back on another column / with another rule | TestC01DropInSweep: a DropColumn that '
                 'lands in the middle of a commit, while the commit walks the column registry to clear deleted rows out of every column (DropColumn '
                 'takes no lock; the harness performs it from a trigger callback that the walk itself calls, so the instant is owned without a '
                 'second goroutine); the registry order of 2..5 value columns, 1..3 scratch columns and the trigger is drawn; oracle = plain model: '
                 'every live row reads exactly what its own insert stored in every live column, Count, free offsets; non-trivial = a drop landed '
                 'inside a delete sweep and a swept offset was re-used afterwards | the same test (round 8) also runs transactions of 1..8 stores '
                 'and merges over several columns and rows - through Row setters or through txn.Int(name) accessors at the cursor - with a '
                 'DropColumn of one of the written columns landing at a drawn point INSIDE the body: what was queued for the dropped column vanishes '
                 'with it, every other write of the transaction must arrive | since round 8 generated transactions may end by obtaining typed column '
                 'accessors that they only read (txn.Int64(name).Get(): an update buffer that stays empty) | since round 9 one generated transaction '
                 'in sixteen has an empty body (no effect, nothing emitted) | one generated transaction in six without DeleteAt steps starts by '
                 'narrowing its selection to nothing (WithValue(col, never) and Count) before its point and key operations, which are independent of '
                 'the selection',
         'assumptions': ["values are in the documented domain (strings <= 65535 bytes; SetAny/SetMany values have the column's Go type)",
                         'writes target rows that are live when issued (writes to dead offsets are outside the property)',
                         'histories are bounded: <= 3 blocks (offsets < 49152), ~30 actions, <= 12 steps per transaction'],
         'tests': [{'run': '^TestC01$',
                    'checks': {'quick': 300, 'thorough': 2500},
                    'shards': {'quick': 1, 'thorough': 16},
                    'timeout': {'quick': 900, 'thorough': 3400},
                    'env': {'GOMAXPROCS': 1}},
                   {'run': '^TestC01Parallel$',
                    'checks': {'quick': 150, 'thorough': 3000},
                    'shards': {'quick': 1, 'thorough': 2},
                    'timeout': {'quick': 900, 'thorough': 3400}},
                   {'run': '^TestC01DropInSweep$',
                    'checks': {'quick': 400, 'thorough': 20000},
                    'shards': {'quick': 1, 'thorough': 8},
                    'timeout': {'quick': 900, 'thorough': 3400},
                    'env': {'GOMAXPROCS': 1}}]},
 'C02': {'level': 'exploration',
         'rule': 'model-based stateful histories in which every transaction draws its ending (commit / error after step k), may contain failing '
                 'inserts, deletes and key operations; oracles: (a) reference model after every transaction, (b) metamorphic twin collection that '
                 'runs the same history WITHOUT the rolled-back transactions - answers of every step incl. the offsets of all later inserts, full '
                 'dumps, Count and key lookups must be identical, (c) a recording commit.Logger must receive nothing for a rolled-back transaction, '
                 "(d) in-flight observation at a drawn point inside the body: a second transaction's full Range dump, Count, a Snapshot+Restore and "
                 "the transaction's own reads must all show the pre-transaction state. non-trivial = a rollback of a transaction that had buffered a "
                 'successful insert, delete or key write, or an in-flight observation of a transaction with >=1 buffered change; distinct = hash of '
                 'the trace | controlled-schedule part (TestSchedWriters with VERIF_PROP=C02): generated concurrent writer programs under the '
                 'cooperative scheduler; the final state must equal the initial state with every committed transaction part folded in apply order '
                 '(each commit applied all it buffered and nothing else, also when other writers run between its blocks) | free-parallel part '
                 '(TestParWriters): the same generated programs (2..8 writer goroutines, 4..30 transactions each, single- and multi-block, puts, '
                 'commutative and order-sensitive merges, owned deletes, inserts; sparse and dense layouts, capacities 1/1024/16385) run with REAL '
                 'parallelism on all cores (common start barrier, pseudo-random processor yields at the hook points, also inside a block commit); '
                 'the same oracles are evaluated at quiescence from the recorded stream (record order of one block = apply order because the logger '
                 'is called under the block latch); failures are reported with program and stream and are not bit-reproducible | added later: '
                 '[With/Without(name);] DeleteAll transactions, first rolled back on the primary only, then committed on primary and twin; nested '
                 'read-only QueryAt at the end of row callbacks; one history in eight starts (primary and twin alike) after a failed Restore of a '
                 'truncated multi-block snapshot | since round 5 the concurrent programs (controlled and free-parallel) contain transactions that '
                 'return an error after their last step (one in six; in "abort-heavy" free-parallel programs every second one, with mostly inserts): '
                 'nothing of them may apply, be emitted or stay reserved | since round 5: transaction bodies that PANIC between two steps (caller '
                 'recovers) after update/delete-only prefixes are treated like rolled-back ones (bodies that have inserted are not generated: a '
                 'panic skips the rollback that releases reserved offsets, and the property speaks of bodies that RETURN an error) | since round 6: '
                 'every sequential history runs under a heartbeat watchdog (a step that makes no progress for 300 s ends the process with a '
                 'WATCHDOG-VIOLATION line: with one goroutine at work that is a lock which is never released); callbacks of operations on EXISTING '
                 'rows may fail too (the call reports the error, the stores stay buffered and commit); the harness record codec has an optional '
                 'field that its decoder leaves alone when absent (like encoding/json with omitted fields); string columns may use a "set or append" '
                 'merge that returns a sub-slice of its delta | since round 7: DropColumn of a value column and its later re-creation under the same '
                 'name (nothing of the former values may show), dropped index names that come back on another column / with another rule | since '
                 'round 8 generated transactions may end by obtaining typed column accessors that they only read (txn.Int64(name).Get(): an update '
                 'buffer that stays empty) | since round 9 one generated transaction in sixteen has an empty body (no effect, nothing emitted) | one '
                 'generated transaction in six without DeleteAt steps starts by narrowing its selection to nothing (WithValue(col, never) and Count) '
                 'before its point and key operations, which are independent of the selection | since round 10 the concurrent programs write one '
                 'store in four through column accessors at the cursor (txn.X(col).Set/Merge) and one committing transaction in four ends by '
                 'obtaining an accessor that it only reads',
         'assumptions': ['in-flight observation happens from the same goroutine between two steps of the body (no latch is held there)',
                         'generator exclusions driven by known findings are counted in coverage.excluded_by_known_finding'],
         'tests': [{'run': '^TestC02$',
                    'checks': {'quick': 250, 'thorough': 2500},
                    'shards': {'quick': 1, 'thorough': 16},
                    'timeout': {'quick': 900, 'thorough': 3400},
                    'env': {'GOMAXPROCS': 1}},
                   {'run': '^TestSchedWriters$',
                    'checks': {'quick': 1000, 'thorough': 15000},
                    'shards': {'quick': 1, 'thorough': 6},
                    'env': {'VERIF_PROP': 'C02', 'GOMAXPROCS': 1},
                    'timeout': {'quick': 900, 'thorough': 3400}},
                   {'run': '^TestParWriters$',
                    'checks': {'quick': 300, 'thorough': 6000},
                    'shards': {'quick': 1, 'thorough': 3},
                    'env': {'VERIF_PROP': 'C02'},
                    'timeout': {'quick': 900, 'thorough': 3400},
                    'shrinktime': '5s'}]},
 'C03': {'level': 'exploration',
         'rule': 'model-based stateful histories (as C01, with rollbacks and key operations) plus actions createIndex(col, predicate)/dropIndex at '
                 'arbitrary points, up to 4 live indexes, several per column; predicate families: numeric threshold (<,>=) and parity decoded with '
                 "the column's width, string/enum/key/record equality, prefix and length, bool truth. Oracle: after EVERY action each index's "
                 'With().Range set, With().Count() and Row.Bool() on touched rows equal the model predicate over live model rows; at the end the '
                 'same on four derived collections: stream replica (indexes created before / after replay) and restored snapshot (indexes created '
                 'before / after Restore), which are also compared row-by-row with the model. non-trivial = some index changed membership after its '
                 'creation through a later transaction, or was back-filled over >=2 populated blocks; distinct = hash of the trace | parallel part '
                 '(TestC03Parallel): indexes are created, dropped and re-created WHILE 1..4 writer goroutines commit puts and merges on 2..3 blocks; '
                 "once everything is quiet each index's With().Range set must equal its predicate over the values read back (schedule-independent "
                 'oracle) | since round 6: every sequential history runs under a heartbeat watchdog (a step that makes no progress for 300 s ends '
                 'the process with a WATCHDOG-VIOLATION line: with one goroutine at work that is a lock which is never released); callbacks of '
                 'operations on EXISTING rows may fail too (the call reports the error, the stores stay buffered and commit); the harness record '
                 'codec has an optional field that its decoder leaves alone when absent (like encoding/json with omitted fields); string columns may '
                 'use a "set or append" merge that returns a sub-slice of its delta | since round 7: a dropped index name may come back on another '
                 'column / with another rule | since round 8: DropColumn of a value column that carries no live index (an index dropped through '
                 'DropColumn(indexName) is still attached to it inside the library, and its name may be in use again on another column); the indexes '
                 'are checked right afterwards | since round 8 generated transactions may end by obtaining typed column accessors that they only '
                 'read (txn.Int64(name).Get(): an update buffer that stays empty) | since round 9 one generated transaction in sixteen has an empty '
                 'body (no effect, nothing emitted) | one generated transaction in six without DeleteAt steps starts by narrowing its selection to '
                 'nothing (WithValue(col, never) and Count) before its point and key operations, which are independent of the selection',
         'assumptions': ["index predicates decode the value with the column's own width (Reader.Int on an int16 column is zero-extended by design)",
                         'quiescent checks only (no transaction is committing while an index is read)'],
         'tests': [{'run': '^TestC03$',
                    'checks': {'quick': 250, 'thorough': 2500},
                    'shards': {'quick': 1, 'thorough': 16},
                    'timeout': {'quick': 900, 'thorough': 3400},
                    'env': {'GOMAXPROCS': 1}},
                   {'run': '^TestC03Parallel$',
                    'checks': {'quick': 15, 'thorough': 300},
                    'shards': {'quick': 1, 'thorough': 2},
                    'timeout': {'quick': 900, 'thorough': 3400}}]},
 'C04': {'level': 'exploration',
         'rule': 'data layouts from the model-based history machine (aggregate-safe value domain: small integers, dyadic floats, no NaN; '
                 'sparse/dense, 0..3 blocks, rows lacking columns, reused offsets, bool/string/enum/key columns, up to 4 bitmap indexes) interleaved '
                 'with generated QUERIES: a chain of 1..5 of With/Without/Union/WithUnion (1..3 names each from indexes, value columns, bool '
                 'columns, expire, the key column and a missing name) and WithValue/WithInt/WithUint/WithFloat/WithString (matching and non-matching '
                 'column types, missing columns), followed by Count, Range (order, cursor, readers positioned on the row) and Sum/Avg/Min/Max of '
                 'EVERY numeric column. Oracle: the reference model evaluates the chain as set algebra over live rows and the aggregates directly '
                 'over the selected rows holding a value. A query is non-trivial when the selection is neither empty nor everything and the layout '
                 'has rows lacking an aggregated column, >=2 blocks or reused offsets; a case is non-trivial when it ran >=1 such query; distinct = '
                 'hash of the trace (incl. queries); counters.queries / counters.nontrivial_queries give the totals | since round 5: one query in '
                 'eight has no filter at all; in one query in four another transaction (a nested collection-level DeleteAt plus a failing insert) '
                 'runs between Count and Range - the selection is a snapshot, Range must visit exactly the rows Count counted; the same generated '
                 'queries also run on a collection that replays the change stream (indexes created there as well) | since round 8: half of the '
                 'numeric thresholds sit on, or one beside, a value that a live row holds in the filtered column; one layout in three stores '
                 'full-range, edge-biased integers (all 64 bits in use: a filter that goes through float64 or compares in another width decides such '
                 'rows wrongly) - Sum and Avg are then not judged for the integer columns (a wrapped sum cannot be told from a fitting one), the '
                 'filters, Count, Range, Min and Max are | action dropIndex (round 8): dropped index names come back on another column or with '
                 'another rule; one drop in three goes through DropColumn(indexName) | round 10: a sign-bit predicate (tells -0 from +0); one stored '
                 'float in four is a zero, half of them negative (also in the prefilled rows of every machine), and a third of the value filters on '
                 'float columns ask for the sign; Min/Max of floats are compared by value; one query in three obtains (and reads) a typed column '
                 'accessor BEFORE its filter chain',
         'assumptions': ['aggregate-safe values: sums are exact in any order; Sum/Avg are not judged when the true sum does not fit the column type '
                         '(counted)',
                         'a fresh Union(missing, ...) is not generated (the text does not define it); WithValue is not applied to index names; '
                         'float->uint filter conversions are not generated'],
         'tests': [{'run': '^TestC04$',
                    'checks': {'quick': 400, 'thorough': 2500},
                    'shards': {'quick': 1, 'thorough': 16},
                    'timeout': {'quick': 900, 'thorough': 3400},
                    'env': {'GOMAXPROCS': 1}}]},
 'C05': {'level': 'exploration',
         'rule': 'op sequences over {delete, insert, bool, put/merge x 2/4/8-byte, byte strings of length 0..65535} x offset moves '
                 '{same,+1,+small,>=128,>=16384,>=2^21,backwards,block jump,back to block 0,revisit}: exhaustively all short sequences over an '
                 '80-letter alphabet (see exhaustive_over) and randomly (rapid) up to length 300; oracle = the written list, compared with '
                 'Seek+Next, Range per block, Clone, Buffer/Commit codec, Log.Append/Range and a merge->put swap pass. non-trivial = the sequence '
                 'has >=2 of {negative delta, block switch, >=3-byte varint delta, interleaved blocks, swap with different length}; distinct = hash '
                 'of the rendered op list | thorough tier additionally runs the coverage-guided native fuzz target FuzzBufferOps (bytes decoded into '
                 'the same op grammar, semantic oracle inside the target) for 90 s on all cores; see coverage.native_fuzz_execs | big payloads '
                 '(TestC05Big): sequences of 30000..65535-byte strings whose total payload in ONE block crosses the 1 MiB block size of the s2 '
                 'stream behind commit.Log (around 1, 2 and 3 MiB +- 70000 bytes), through every view incl. Log.Append/Range in memory and on a file '
                 '| since round 5: offset moves exactly at / next to the 2^7, 2^14, 2^21, 2^28 length boundaries of the variable-length delta (in '
                 'the exhaustive alphabet and the random generator); every view is read a second time with the SAME reader after it ranged over '
                 'blocks (Seek+Next, Seek+Rewind+Next, Rewind inside a Range callback) | since round 6: the commits of a log carry IDs that DEcrease '
                 'from commit to commit (every commit is for another block; IDs only grow per block) | every decode (Buffer.ReadFrom, '
                 'Commit.ReadFrom, commit.Open(...).Range) reads from one of four legal io.Readers chosen by the size of the encoding and the '
                 'variant: all at once, one byte per Read, pieces of 1,2,3,5,8,13 bytes, or half of what is asked with the last data arriving '
                 'together with io.EOF - a decoder that assumes a Read fills its buffer fails the round trip | a Buffer.Clone and the buffer inside '
                 'a Commit.Clone must read back the written sequence also AFTER the original buffer was Reset and filled with other operations (what '
                 'happens when a transaction page returns to the pool while a logger, channel consumer or snapshot recorder still holds the clone) | '
                 'a []byte handed to PutBytes is scribbled over by the caller right after the call (the buffer must hold a copy)',
         'assumptions': ['offsets < 2^31 and byte strings <= 65535 bytes (format limits)',
                         'merge operations always carry a value (as every caller in kelindar/column does)'],
         'tests': [{'run': '^TestC05Exhaustive$', 'timeout': {'quick': 600, 'thorough': 3000}, 'env': {'GOMAXPROCS': 1}},
                   {'run': '^TestC05Random$',
                    'checks': {'quick': 8000, 'thorough': 40000},
                    'shards': {'quick': 1, 'thorough': 16},
                    'timeout': {'quick': 600, 'thorough': 3000},
                    'env': {'GOMAXPROCS': 1}},
                   {'run': '^TestC05Big$',
                    'checks': {'quick': 25, 'thorough': 300},
                    'shards': {'quick': 1, 'thorough': 4},
                    'timeout': {'quick': 600, 'thorough': 3000},
                    'env': {'GOMAXPROCS': 1}},
                   {'run': 'FuzzBufferOps (native)',
                    'fuzz': 'FuzzBufferOps',
                    'thorough_only': True,
                    'fuzztime': {'thorough': '90s'},
                    'timeout': {'thorough': 1200}}]},
 'C06': {'level': 'exploration',
         'rule': 'sequential part: model-based histories over all column kinds (late columns, custom merges, key operations, rollbacks, prefills to '
                 '3 blocks, bulk deletes, index create/drop mirrored on the replica) on a primary whose commits go to a real commit.Channel AND a '
                 "serialized commit.Log (in memory; every 4th case a real file). Replica 1 replays the channel's cloned commits incrementally and is "
                 'compared with the reference model (rows, values, Count, key lookups, index contents) at drawn intermediate points and at the end; '
                 'replica 2 replays the whole serialized log at the end and is compared the same way; the number of commits through both paths must '
                 'agree. concurrent part (TestC06Sched): generated multi-block writer programs under the cooperative scheduler (random + exhaustive '
                 'schedules), recorded stream replayed in emission order, primary == replica. non-trivial = the history contains a multi-block '
                 'commit, a merge or an offset reuse and >=1 commit was replayed; distinct = hash of trace/schedule | free-parallel part '
                 '(TestC06Parallel): the writers of 2..4 different blocks commit 50..400 transactions each with real parallelism into a serialized '
                 'commit.Log (memory or file); at quiescence the log must decode, with bounds-checked framing, into exactly the commits that were '
                 'emitted per block, and a replica fed from it must equal the primary row for row | free-parallel part (TestParWriters): the same '
                 'generated programs (2..8 writer goroutines, 4..30 transactions each, single- and multi-block, puts, commutative and '
                 'order-sensitive merges, owned deletes, inserts; sparse and dense layouts, capacities 1/1024/16385) run with REAL parallelism on '
                 'all cores (common start barrier, pseudo-random processor yields at the hook points, also inside a block commit); the same oracles '
                 'are evaluated at quiescence from the recorded stream (record order of one block = apply order because the logger is called under '
                 'the block latch); failures are reported with program and stream and are not bit-reproducible | since round 5 the concurrent '
                 'programs (controlled and free-parallel) contain transactions that return an error after their last step (one in six; in '
                 '"abort-heavy" free-parallel programs every second one, with mostly inserts): nothing of them may apply, be emitted or stay '
                 'reserved | since round 5 (chain replication): the first replica has a change stream of its own, and a second-level replica fed '
                 'from THAT stream must equal the model too | since round 6: every sequential history runs under a heartbeat watchdog (a step that '
                 'makes no progress for 300 s ends the process with a WATCHDOG-VIOLATION line: with one goroutine at work that is a lock which is '
                 'never released); callbacks of operations on EXISTING rows may fail too (the call reports the error, the stores stay buffered and '
                 'commit); the harness record codec has an optional field that its decoder leaves alone when absent (like encoding/json with omitted '
                 'fields); string columns may use a "set or append" merge that returns a sub-slice of its delta | since round 7: a dropped index '
                 'name may come back on another column / with another rule | since round 8: action txnDuringSnapshot - the primary writes a snapshot '
                 'while 1..2 generated transactions commit (run by the hooks at a drawn point of the snapshot): those commits go to the snapshot '
                 'recorder AND must still reach the stream | generated transactions may end by obtaining typed column accessors that they only read '
                 '(an empty update buffer at the end of the transaction) | TestC01DropInSweep run for C06: the histories with a DropColumn inside a '
                 'delete sweep or inside a transaction body (see C01) on a primary with a logger; a follower that starts with the initial columns '
                 'and repeats the emitted commits and the DDL steps in the order in which they happened must equal the model (rows, every live '
                 'column, Count) | since round 9 one generated transaction in sixteen has an empty body (no effect, nothing emitted) | one generated '
                 'transaction in six without DeleteAt steps starts by narrowing its selection to nothing (WithValue(col, never) and Count) before '
                 'its point and key operations, which are independent of the selection | since round 10 the concurrent programs write one store in '
                 'four through column accessors at the cursor (txn.X(col).Set/Merge) and one committing transaction in four ends by obtaining an '
                 'accessor that it only reads | TestC06BigCommit (round 10): the stream goes through a serialized commit.Log; ONE transaction stores '
                 '18..30 strings of 50 000..65 535 bytes into rows of one block, so that its single commit is larger than the 1 MiB block of the s2 '
                 'stream (the decoder gets it in pieces), with small transactions before and after; a replica that reads the log back (through a '
                 'short-read reader) must hold exactly the generated values; non-trivial = the commit carried more than 1 MiB',
         'assumptions': ['the replica has the same schema (columns created at the same history points) and the same index definitions',
                         'comparison happens when the primary is quiescent'],
         'tests': [{'run': '^TestC06$',
                    'checks': {'quick': 400, 'thorough': 2500},
                    'shards': {'quick': 1, 'thorough': 8},
                    'timeout': {'quick': 900, 'thorough': 3400},
                    'env': {'GOMAXPROCS': 1}},
                   {'run': '^TestSchedWriters$',
                    'checks': {'quick': 1500, 'thorough': 20000},
                    'shards': {'quick': 1, 'thorough': 8},
                    'env': {'VERIF_PROP': 'C06', 'GOMAXPROCS': 1},
                    'timeout': {'quick': 900, 'thorough': 3400}},
                   {'run': '^TestSchedWritersExhaustive$',
                    'env': {'VERIF_PROP': 'C06', 'VERIF_SCHED_LIMIT': {'quick': 2500, 'thorough': 200000}, 'GOMAXPROCS': 1},
                    'timeout': {'quick': 900, 'thorough': 3400}},
                   {'run': '^TestC06Parallel$',
                    'checks': {'quick': 100, 'thorough': 2000},
                    'shards': {'quick': 1, 'thorough': 2},
                    'timeout': {'quick': 900, 'thorough': 3400}},
                   {'run': '^TestParWriters$',
                    'checks': {'quick': 300, 'thorough': 6000},
                    'shards': {'quick': 1, 'thorough': 3},
                    'env': {'VERIF_PROP': 'C06'},
                    'timeout': {'quick': 900, 'thorough': 3400},
                    'shrinktime': '5s'},
                   {'run': '^TestC01DropInSweep$',
                    'checks': {'quick': 400, 'thorough': 20000},
                    'shards': {'quick': 1, 'thorough': 8},
                    'timeout': {'quick': 900, 'thorough': 3400},
                    'env': {'VERIF_PROP': 'C06', 'GOMAXPROCS': 1}},
                   {'run': '^TestC06BigCommit$',
                    'checks': {'quick': 40, 'thorough': 2000},
                    'shards': {'quick': 1, 'thorough': 4},
                    'timeout': {'quick': 900, 'thorough': 3400},
                    'env': {'GOMAXPROCS': 1}}]},
 'C07': {'level': 'exploration',
         'rule': 'model-based stateful histories over all column kinds (enum, bool, record, key, expire, late columns, custom merges), all Capacity '
                 'options, 0..3 blocks with patterned bulk deletes and offset reuse; action snapshotRestore (up to 3 per history): Snapshot to a '
                 'buffer, Restore into a fresh same-schema collection that draws its OWN capacity, bitmap indexes created before or after Restore, '
                 'then the SAME state machine continues on the restored collection. Oracle: restored == original == reference model (rows at '
                 'identical offsets, values bit-for-bit, Count, key lookups, index contents); afterwards every insert must return an offset the '
                 'model considers free and model equality keeps holding; a final extra round trip. non-trivial = a snapshotted state had a row in '
                 'block>=1 or a deleted/reused offset AND >=1 mutation happened after a restore; distinct = hash of the trace | the schema may also '
                 'hold up to two computed columns that are not bitmap indexes (a sort index on a string column, a trigger), created at any point of '
                 'the history - also before late data columns | since round 6: every sequential history runs under a heartbeat watchdog (a step that '
                 'makes no progress for 300 s ends the process with a WATCHDOG-VIOLATION line: with one goroutine at work that is a lock which is '
                 'never released); callbacks of operations on EXISTING rows may fail too (the call reports the error, the stores stay buffered and '
                 'commit); the harness record codec has an optional field that its decoder leaves alone when absent (like encoding/json with omitted '
                 'fields); string columns may use a "set or append" merge that returns a sub-slice of its delta | since round 7: DropColumn of a '
                 'value column and its later re-creation under the same name (nothing of the former values may show), dropped index names that come '
                 'back on another column / with another rule | TestC07Boundary: a wide padding column followed by 4..40 small columns of mixed '
                 'kinds; the padding is sized after measuring the uncompressed state so that a multiple of 1 MiB (the block size of the s2 stream, '
                 'where the decompressor ends a Read) falls at a drawn byte inside the region of the small columns: every field of the format (name, '
                 'int32, chunk header, payload) gets split over two reads in some case; oracle = the generated values themselves (Restore returns '
                 'nil, Count, every cell); non-trivial = the mark fell inside that region | since round 8 generated transactions may end by '
                 'obtaining typed column accessors that they only read (txn.Int64(name).Get(): an update buffer that stays empty) | since round 9 '
                 'Restore reads the snapshot (or its prefix) from one of four legal io.Readers chosen by the length: all at once, one byte per Read, '
                 'pieces of 1,2,3,5,8,13 bytes, or half of what is asked with the last data arriving together with io.EOF | since round 9 one '
                 'generated transaction in sixteen has an empty body (no effect, nothing emitted) | one generated transaction in six without '
                 'DeleteAt steps starts by narrowing its selection to nothing (WithValue(col, never) and Count) before its point and key operations, '
                 'which are independent of the selection | since round 9 one snapshot in three is written while 1..2 generated transactions commit '
                 '(run by the hooks at a drawn point before the recorder closes): they travel in the log tail of the snapshot and the restored '
                 'collection must equal the model including them',
         'assumptions': ['the restoring collection has the same columns (names, kinds, merge functions) as the original',
                         'vacuum is parked (24h interval), so the expire column is an ordinary int64 column here'],
         'tests': [{'run': '^TestC07$',
                    'checks': {'quick': 250, 'thorough': 2500},
                    'shards': {'quick': 1, 'thorough': 16},
                    'timeout': {'quick': 900, 'thorough': 3400},
                    'env': {'GOMAXPROCS': 1}},
                   {'run': '^TestC07Boundary$',
                    'checks': {'quick': 120, 'thorough': 3000},
                    'shards': {'quick': 1, 'thorough': 8},
                    'timeout': {'quick': 900, 'thorough': 3400},
                    'env': {'GOMAXPROCS': 1}}]},
 'C08': {'level': 'exploration',
         'rule': 'generated programs: one task calling Snapshot plus 2..4 writer tasks (1..2 transactions each: merges/puts into shared rows of 1..3 '
                 'blocks incl. order-sensitive merges, deletes of privately owned rows, single- and multi-block) under the cooperative scheduler '
                 'with every commit yield point (pre-latch, post-latch) and every snapshot yield point (recorder-open, pre-chunk per block, '
                 'pre-close, pre-copy); schedules drawn by rapid, and bounded-exhaustive DFS over three fixed configurations (see exhaustive_over; '
                 'complete only when the bound is not hit). Oracle: from the recording logger the applied commit sequence c1..cn of every block with '
                 'logical clocks; lo_b = commits of transactions that had RETURNED before the snapshot call began, hi_b = commits applied before it '
                 'returned; the reference model computes the block states s0..sn; after Restore into a fresh collection block b must equal s_k for '
                 'some lo_b <= k <= hi_b; Snapshot and Restore must return nil, not panic, not hang. non-trivial = >=1 commit was applied between '
                 'recorder-open and pre-close; distinct = program + schedule | free-parallel part (TestC08Parallel): 2..8 writer goroutines (4..30 '
                 'transactions each) and one goroutine calling Snapshot after a drawn delay run with REAL parallelism; logical times come from one '
                 'atomic counter (transaction begin/return, commit recorded, Snapshot call/return); the same per-block prefix oracle with lo_b = '
                 'commits of transactions that had returned before Snapshot was called and hi_b = position of the last commit whose transaction had '
                 'BEGUN before Snapshot returned (a commit reaches the snapshot recorder before the recording logger, so its own logical time may be '
                 'later than the return); not bit-reproducible | since round 5 the concurrent programs (controlled and free-parallel) contain '
                 'transactions that return an error after their last step (one in six; in "abort-heavy" free-parallel programs every second one, '
                 'with mostly inserts): nothing of them may apply, be emitted or stay reserved | since round 10 the concurrent programs write one '
                 'store in four through column accessors at the cursor (txn.X(col).Set/Merge) and one committing transaction in four ends by '
                 'obtaining an accessor that it only reads | TestC13Big run for C08 (round 10): a snapshot taken while ONE transaction re-writes the '
                 '66..140-byte strings of 32 770..36 000 rows (three commits of more than 1 MiB each, larger than a block of the s2 stream of the '
                 'log tail); the COMPLETE file must restore without error, and every block holds all old or all new strings, the new ones in a '
                 'prefix of the commit order',
         'assumptions': ['controlled-schedule parts: context switches only at the verif yield points; free-parallel part: whatever the Go scheduler '
                         'produces on 16 cores',
                         'writers do not insert while known finding f10 (in-flight reservations visible to snapshots) is active - counted'],
         'tests': [{'run': '^TestC08Sched$',
                    'checks': {'quick': 2500, 'thorough': 8000},
                    'shards': {'quick': 1, 'thorough': 12},
                    'timeout': {'quick': 900, 'thorough': 3400},
                    'env': {'GOMAXPROCS': 1}},
                   {'run': '^TestC08Exhaustive$',
                    'env': {'VERIF_SCHED_LIMIT': {'quick': 1500, 'thorough': 60000}, 'GOMAXPROCS': 1},
                    'timeout': {'quick': 900, 'thorough': 3400}},
                   {'run': '^TestC08Parallel$',
                    'checks': {'quick': 300, 'thorough': 1200},
                    'shards': {'quick': 1, 'thorough': 8},
                    'timeout': {'quick': 900, 'thorough': 3400},
                    'shrinktime': '5s',
                    'par': 8},
                   {'run': '^TestC13Big$',
                    'checks': {'quick': 3, 'thorough': 60},
                    'shards': {'quick': 1, 'thorough': 4},
                    'timeout': {'quick': 900, 'thorough': 3400},
                    'env': {'VERIF_PROP': 'C08', 'GOMAXPROCS': 1}}]},
 'C09': {'level': 'exploration',
         'rule': 'controlled-schedule part: generated programs of 2..4 writer tasks (1..2 transactions each, 1..4 steps: merges and puts into SHARED '
                 'rows of 1..3 blocks through an additive int merge, an order-sensitive int merge v*3+d and an order-sensitive same-length string '
                 'merge; deletes of privately owned rows; inserts) run under the cooperative scheduler, which owns every context switch at '
                 'commit:pre-latch / commit:post-latch and at drawn points inside transaction bodies; schedules are drawn by rapid and, for four '
                 'fixed configurations, enumerated exhaustively (see exhaustive_over). Oracle: the recording logger gives the per-block apply order; '
                 'the final primary state must equal the initial state with every committed transaction part folded in that order, and every emitted '
                 'commit must carry, as PUTS, exactly the successive folds (no deltas). free-parallel part: 2..16 goroutines x 20..200 single-merge '
                 'transactions over all 10 numeric kinds on rows in 1..2 blocks with a concurrent Range reader; final value == initial + sum of all '
                 'deltas; one record column with an IN-PLACE merge function (returns its first argument; the record encoder yields) and 10% '
                 'transactions that merge and then return an error (their deltas must not count). non-trivial = two tasks merged into the same row '
                 'and their commits on that block were adjacent in apply order (schedules) / >=2 workers contended (parallel); distinct = program + '
                 'schedule | free-parallel part (TestParWriters): the same generated programs (2..8 writer goroutines, 4..30 transactions each, '
                 'single- and multi-block, puts, commutative and order-sensitive merges, owned deletes, inserts; sparse and dense layouts, '
                 'capacities 1/1024/16385) run with REAL parallelism on all cores (common start barrier, pseudo-random processor yields at the hook '
                 'points, also inside a block commit); the same oracles are evaluated at quiescence from the recorded stream (record order of one '
                 'block = apply order because the logger is called under the block latch); failures are reported with program and stream and are not '
                 'bit-reproducible | since round 5 the concurrent programs (controlled and free-parallel) contain transactions that return an error '
                 'after their last step (one in six; in "abort-heavy" free-parallel programs every second one, with mostly inserts): nothing of them '
                 'may apply, be emitted or stay reserved | since round 5 the free-parallel part also extends the time-to-live of the contended rows '
                 'with txn.TTL().Extend (a merge into the deadline): final deadline = initial deadline + every committed extension | since round 10 '
                 'the concurrent programs write one store in four through column accessors at the cursor (txn.X(col).Set/Merge) and one committing '
                 'transaction in four ends by obtaining an accessor that it only reads',
         'assumptions': ["context switches happen only at the verif yield points and body yields (windows inside one buffer's apply loop are reached "
                         'only by the free-parallel part)',
                         'shared rows are never deleted by the generated programs (so the fold is well defined)'],
         'tests': [{'run': '^TestSchedWriters$',
                    'checks': {'quick': 1500, 'thorough': 20000},
                    'shards': {'quick': 1, 'thorough': 8},
                    'env': {'VERIF_PROP': 'C09', 'GOMAXPROCS': 1},
                    'timeout': {'quick': 900, 'thorough': 3400}},
                   {'run': '^TestSchedWritersExhaustive$',
                    'env': {'VERIF_PROP': 'C09', 'VERIF_SCHED_LIMIT': {'quick': 2500, 'thorough': 200000}, 'GOMAXPROCS': 1},
                    'timeout': {'quick': 900, 'thorough': 3400}},
                   {'run': '^TestC09Parallel$',
                    'checks': {'quick': 120, 'thorough': 2000},
                    'shards': {'quick': 1, 'thorough': 2},
                    'timeout': {'quick': 900, 'thorough': 3400}},
                   {'run': '^TestParWriters$',
                    'checks': {'quick': 300, 'thorough': 6000},
                    'shards': {'quick': 1, 'thorough': 3},
                    'env': {'VERIF_PROP': 'C09'},
                    'timeout': {'quick': 900, 'thorough': 3400},
                    'shrinktime': '5s'}]},
 'C10': {'level': 'exploration',
         'rule': 'workload invariant: every row always holds a, b, c with a == -b == c; a writer transaction changes all three columns of its rows '
                 'together (puts, merges) or deletes a row and inserts a new one. Mode 1 (latch-held, controlled): the writer is parked by the '
                 'commit:mid-apply hook after a drawn number of its apply steps (after the row markers, after each column buffer) WITH the block '
                 'write latch held; 1..3 readers in the styles QueryAt / Range / With(index).Range / WithInt.Range then run as may-block steps (4 '
                 'ms): on correct code readers of that block block and later see a whole state; cases drawn by rapid plus an exhaustive sweep (1 '
                 'writer x {put, merge, delete+insert} x mid-apply points 1..8 x 4 reader styles x 1..2 blocks). Mode 2 (free parallelism): 1..6 '
                 'writers and 2..10 readers hammer the same rows for a fixed time. Oracle, evaluated INSIDE one read callback and independent of '
                 'timing: presence of a, b, c is all-or-none and, when present, a + b == 0 and c == a. non-trivial = mode 1: the writer was parked '
                 'mid-commit (>=1 apply step done, latch held) while readers ran; mode 2: a reader observed >=3 distinct committed versions of one '
                 'row; distinct = the generated case | added later: on keyed collections the readers also use QueryKey and the existing-key branch '
                 'of UpsertKey (point reads by key) in both modes; in the free-parallel mode a worker panic or workers that do not come back within '
                 '30 s are reported | since round 5 two more reader styles: several txn.QueryAt point reads inside ONE transaction, and '
                 'With(all).WithUnion(odd, even) over two indexes of one column that partition the rows (in the free-parallel part the union must '
                 'always select all rows: no row is ever deleted there) | since round 10 the generated writers also write in accessor style: a '
                 'QueryAt that only positions the cursor, then stores or merges through txn.Int/txn.Uint64 accessors after it returned',
         'assumptions': ["mode 1 decides by the invariant, never by timing: a slow machine can only make a reader count as 'blocked' (weaker), not "
                         'produce an alarm',
                         'rows whose three columns are all absent are not judged (deleted after the reader selected them, or an in-flight '
                         'reservation = known finding f10)',
                         'mode 2 is not bit-reproducible'],
         'tests': [{'run': '^TestC10Latched$',
                    'checks': {'quick': 2500, 'thorough': 10000},
                    'shards': {'quick': 1, 'thorough': 8},
                    'timeout': {'quick': 900, 'thorough': 3400}},
                   {'run': '^TestC10LatchedExhaustive$', 'timeout': {'quick': 900, 'thorough': 3400}},
                   {'run': '^TestC10Parallel$',
                    'checks': {'quick': 10, 'thorough': 200},
                    'shards': {'quick': 1, 'thorough': 4},
                    'env': {'VERIF_C10_SECONDS': {'quick': 3, 'thorough': 8}},
                    'timeout': {'quick': 900, 'thorough': 3400}}]},
 'C11': {'level': 'exploration',
         'rule': 'sequential part (model-based, rapid): fill actions of 1,2,63,64,65,127,128,129,16383,16384,16385 rows storing into EVERY column, '
                 'patterned bulk deletes (ranges, strides, all-but-one-bit-per-word, whole words, tail, whole first block), single inserts that '
                 'store into <=1 column followed by reads of every column through all reader paths, multi-insert transactions (several reservations '
                 'in flight), rollbacks and failing inserts, every Capacity option. Oracle: every returned offset is free in the reference model and '
                 'not reserved earlier in the same transaction; Count == live rows after every action; a fresh row shows exactly what its insert '
                 'stored (merges start from zero). free-parallel part (rapid-generated programs for 2..8 goroutines, real parallelism): every insert '
                 'stores a unique tag; at quiescence every surviving tag is found exactly once at the offset its insert returned, no fresh row '
                 "exposes a previous occupant's value, Count == surviving rows. non-trivial = an insert landed on a previously deleted offset that "
                 'had held values in a column the new insert did not set (sequential) / a surviving row sits on a previously deleted offset '
                 '(parallel); distinct = hash of trace/program | controlled-schedule part (TestSchedWriters with VERIF_PROP=C11): generated writer '
                 'programs with multi-block deletes and inserts under the cooperative scheduler; when the transaction parts are folded in apply '
                 'order an insert must never have been given an offset that still holds a live row, and Count == live rows at the end | '
                 'free-parallel part (TestParWriters): the same generated programs (2..8 writer goroutines, 4..30 transactions each, single- and '
                 'multi-block, puts, commutative and order-sensitive merges, owned deletes, inserts; sparse and dense layouts, capacities '
                 '1/1024/16385) run with REAL parallelism on all cores (common start barrier, pseudo-random processor yields at the hook points, '
                 'also inside a block commit); the same oracles are evaluated at quiescence from the recorded stream (record order of one block = '
                 'apply order because the logger is called under the block latch); failures are reported with program and stream and are not '
                 'bit-reproducible | latched insert probe (TestC11Latched): a commit that deletes one row of a dense collection (64/128/192/16448 '
                 'rows: the tail word is full, so the allocator hands out the lowest free offset) is parked at a commit:mid-apply point - offset '
                 'already released, values not yet cleared, write latch held - while a second goroutine inserts; the insert callback must see a row '
                 'holding nothing (on the real code it waits for the latch), the new row ends up with exactly what its insert stored, Count is '
                 'unchanged; non-trivial = the insert was handed the freed offset while the commit was parked | stream follower: at the end of every '
                 'sequential history a second collection replays the recorded change stream and must equal the model as well (re-used offsets carry '
                 'no stale data there either) | since round 5 the concurrent programs (controlled and free-parallel) contain transactions that '
                 'return an error after their last step (one in six; in "abort-heavy" free-parallel programs every second one, with mostly inserts): '
                 'nothing of them may apply, be emitted or stay reserved | since round 6: every sequential history runs under a heartbeat watchdog '
                 '(a step that makes no progress for 300 s ends the process with a WATCHDOG-VIOLATION line: with one goroutine at work that is a '
                 'lock which is never released); callbacks of operations on EXISTING rows may fail too (the call reports the error, the stores stay '
                 'buffered and commit); the harness record codec has an optional field that its decoder leaves alone when absent (like encoding/json '
                 'with omitted fields); string columns may use a "set or append" merge that returns a sub-slice of its delta | TestC11Orphans: '
                 'DropColumn of a value column leaves its bitmap and sort indexes registered and queryable; histories of insert / delete / '
                 'createIndex (bitmap, sort) / dropColumn / re-create column; per offset a generation counter; whatever an index whose column was '
                 'dropped selects (txn.With, Row.Bool, txn.Ascend) must be a member frozen at the drop with an unchanged generation - a row inserted '
                 'after the drop is never selected, also when it re-uses the offset of a member; indexes on live columns select exactly the rows '
                 'whose own value satisfies the rule; non-trivial = an offset selected by an orphaned index at the drop was deleted, re-used and '
                 'looked at through that index | since round 8 generated transactions may end by obtaining typed column accessors that they only '
                 'read (txn.Int64(name).Get(): an update buffer that stays empty) | since round 9 one generated transaction in sixteen has an empty '
                 'body (no effect, nothing emitted) | one generated transaction in six without DeleteAt steps starts by narrowing its selection to '
                 'nothing (WithValue(col, never) and Count) before its point and key operations, which are independent of the selection | since '
                 'round 10 the concurrent programs write one store in four through column accessors at the cursor (txn.X(col).Set/Merge) and one '
                 'committing transaction in four ends by obtaining an accessor that it only reads | since round 10 one schema in three of the '
                 'sequential C11 histories has a key column: rows are then created with InsertKey under fresh keys (row callbacks may end with a '
                 'nested point query that moves the cursor), and the key of a fresh row is part of what it exposes',
         'assumptions': ['free-parallel runs are not bit-reproducible: the replay re-runs the generated program (schedule left to the Go runtime)'],
         'tests': [{'run': '^TestC11$',
                    'checks': {'quick': 200, 'thorough': 2000},
                    'shards': {'quick': 1, 'thorough': 12},
                    'timeout': {'quick': 900, 'thorough': 3400},
                    'env': {'GOMAXPROCS': 1}},
                   {'run': '^TestC11Parallel$',
                    'checks': {'quick': 150, 'thorough': 3000},
                    'shards': {'quick': 1, 'thorough': 4},
                    'timeout': {'quick': 900, 'thorough': 3400}},
                   {'run': '^TestSchedWriters$',
                    'checks': {'quick': 1200, 'thorough': 15000},
                    'shards': {'quick': 1, 'thorough': 6},
                    'env': {'VERIF_PROP': 'C11', 'GOMAXPROCS': 1},
                    'timeout': {'quick': 900, 'thorough': 3400}},
                   {'run': '^TestParWriters$',
                    'checks': {'quick': 300, 'thorough': 6000},
                    'shards': {'quick': 1, 'thorough': 3},
                    'env': {'VERIF_PROP': 'C11'},
                    'timeout': {'quick': 900, 'thorough': 3400},
                    'shrinktime': '5s'},
                   {'run': '^TestC11Latched$',
                    'checks': {'quick': 300, 'thorough': 3000},
                    'shards': {'quick': 1, 'thorough': 2},
                    'timeout': {'quick': 900, 'thorough': 3400}},
                   {'run': '^TestC11Orphans$',
                    'checks': {'quick': 400, 'thorough': 20000},
                    'shards': {'quick': 1, 'thorough': 8},
                    'timeout': {'quick': 900, 'thorough': 3400},
                    'env': {'GOMAXPROCS': 1}}]},
 'C12': {'level': 'exploration',
         'rule': 'model-based stateful histories on keyed schemas: transactions of 1..8 steps over InsertKey/UpsertKey/QueryKey/DeleteKey/SetKey '
                 'with keys from a 6-key alphabet (forcing repeats, incl. the empty key), mixed with updates/deletes by offset, rollbacks, failing '
                 "inserts, collection-level and transaction-level entry points, prefills and patterned bulk deletes. Oracle: each operation's "
                 'outcome against the committed reference table at issue time (InsertKey errors iff present; QueryKey/DeleteKey error iff absent; '
                 'upsert callback runs on the existing row iff present; SetKey errors iff the key is taken); after every transaction every alphabet '
                 "key resolves (QueryKey + Row.Key) to exactly the model's row or fails, and a full scan finds no two live rows with one key. "
                 'non-trivial = a key that had been deleted or re-keyed away is successfully used again, or >=2 key operations on one key in one '
                 'committed transaction; distinct = hash of the trace | concurrent part (TestC12Parallel, free parallelism): 2..8 goroutines x '
                 '50..400 key operations over 2..12 keys (+ optional 100 / 16380 pre-filled keyed rows that are deleted and re-inserted to force '
                 'offset reuse); creating operations for a key come from its owner only (finding f17), and while finding f26 is listed a key is '
                 'touched by its owner only (counted). Oracle at quiescence: at most one live row per key, for every key a lookup succeeds iff '
                 'exactly that row holds it, Count == visible rows | interleaved part (TestC12Interleaved): a second stream B commits InsertKey '
                 "operations for fresh keys INSIDE the body of transaction A between A's steps (deterministic stand-in for a concurrent writer; B "
                 'never deletes, so f26 and f17 are not touched); every step is judged against the committed table at issue time and the final state '
                 'against the reference map | added later: row callbacks of InsertKey/UpsertKey/QueryKey may end with a nested read-only QueryAt of '
                 'another row on the same transaction (the transaction cursor moves before the call returns) | since round 5: a stream follower '
                 'replays the change stream at intermediate points and at the end and must pass the same key-lookup checks; one history in eight '
                 'starts after a failed Restore of a truncated snapshot (the expected state comes from a probe collection, the collection under test '
                 'runs no transaction before the first generated one) | since round 6: every sequential history runs under a heartbeat watchdog (a '
                 'step that makes no progress for 300 s ends the process with a WATCHDOG-VIOLATION line: with one goroutine at work that is a lock '
                 'which is never released); callbacks of operations on EXISTING rows may fail too (the call reports the error, the stores stay '
                 'buffered and commit); the harness record codec has an optional field that its decoder leaves alone when absent (like encoding/json '
                 'with omitted fields); string columns may use a "set or append" merge that returns a sub-slice of its delta | since round 7: the '
                 'callback of an InsertKey may re-key the new row (SetKey) before InsertKey queues its own key - the row ends up with the InsertKey '
                 'key, the other one must not resolve; a second key column is attempted (refused) and whatever the attempt registered is dropped '
                 'again | since round 8 generated transactions may end by obtaining typed column accessors that they only read '
                 '(txn.Int64(name).Get(): an update buffer that stays empty) | since round 9 one generated transaction in sixteen has an empty body '
                 '(no effect, nothing emitted) | the key alphabet holds the empty key and keys that are prefixes of other keys ("k", "k1", "k10") | '
                 'one generated transaction in six without DeleteAt steps starts by narrowing its selection to nothing (WithValue(col, never) and '
                 'Count) before its point and key operations, which are independent of the selection',
         'assumptions': ['existence is judged against the committed table when the operation is issued (documented mechanism)',
                         'the key column is written only through InsertKey/UpsertKey/SetKey (SetAny on the key column bypasses the duplicate test '
                         'and is outside the property)'],
         'tests': [{'run': '^TestC12$',
                    'checks': {'quick': 400, 'thorough': 4000},
                    'shards': {'quick': 1, 'thorough': 16},
                    'timeout': {'quick': 900, 'thorough': 3400},
                    'env': {'GOMAXPROCS': 1}},
                   {'run': '^TestC12Parallel$',
                    'checks': {'quick': 300, 'thorough': 6000},
                    'shards': {'quick': 1, 'thorough': 4},
                    'timeout': {'quick': 900, 'thorough': 3400}},
                   {'run': '^TestC12Interleaved$',
                    'checks': {'quick': 300, 'thorough': 4000},
                    'shards': {'quick': 1, 'thorough': 8},
                    'env': {'GOMAXPROCS': 1},
                    'timeout': {'quick': 900, 'thorough': 3400}}]},
 'C13': {'level': 'fault_enumeration',
         'rule': 'files: (i) snapshots of generated collections (0..3 blocks, thinned to a few dozen rows on block/word boundaries, keyed or not) '
                 'taken while the verif hooks run 0..2 generated transactions synchronously at each of snapshot:recorder-open / pre-chunk:0..2 / '
                 'pre-close / pre-copy, so the file holds block states cut at different times plus 0..N logged commits over several blocks; (ii) '
                 'commit-log streams with 1..6 commits built from generated op lists over several blocks. Truncation offsets are ENUMERATED per '
                 'file: thorough = every byte offset (exhaustive per file); quick = every s2 frame boundary +-2, the state/log junction +-2, 0, 1, '
                 'len-2, len-1 and 120-150 drawn offsets. Oracle: Restore(prefix) into a fresh collection, under a 20 s watchdog and recover, either '
                 'returns an error or the restored dump equals E_k for some k: every block = its cut state plus those of the first k logged commits '
                 'that are newer than the cut, the SAME k for all blocks (E_k computed from reference-model states saved after each tail '
                 'transaction); Log.Range(prefix) delivers a prefix of the appended commits, each op-for-op equal, then nil or an error. Panic, hang '
                 'or any other state = violation. The complete file must restore to the state at recorder close. non-trivial = the prefix ends '
                 'inside the log tail or inside the state section and the call returned nil (snapshots) / nil after a strict non-empty prefix of the '
                 'commits (logs); distinct = (file, offset) | parallel part (TestC13Parallel): snapshots taken while 2..6 writer goroutines commit '
                 'a=v,b=-v,c=v on rows of 1..2 blocks with real parallelism; the complete file, the state section alone and prefixes ending at frame '
                 'boundaries inside the log tail are restored: whenever Restore returns nil EVERY row must satisfy a+b==0, c==a (a state containing '
                 'part of a commit does not) | since round 5 the parallel part has hot rows into which every writer merges a positive amount: across '
                 'growing prefixes of one snapshot (state section alone, up to 40 cuts inside the log tail, complete file) their restored values may '
                 'never decrease | since round 6: on keyed schemas the transactions that run during the snapshot use key operations over the small '
                 'key alphabet (a key may leave one block and come back in another while the blocks are cut at different times) | TestC13Big: 32 '
                 '770..36 000 rows with incompressible strings of 66..140 bytes (state of 2.4..5 MB) and, while the snapshot is in progress, one '
                 'transaction that re-writes every string (three commits of more than 1 MiB each in the log tail); the file is cut at every s2 frame '
                 'boundary +-2, at the state/log junction +-2 and at 11 other places; a prefix that restores without error must hold, per block, all '
                 'old or all new strings, the new ones in a prefix of the commit order; non-trivial = a cut inside the log tail restored without '
                 'error | since round 9 Restore reads the snapshot (or its prefix) from one of four legal io.Readers chosen by the length: all at '
                 'once, one byte per Read, pieces of 1,2,3,5,8,13 bytes, or half of what is asked with the last data arriving together with io.EOF',
         'assumptions': ['a crash leaves a prefix of the byte stream (no torn or reordered sectors)',
                         'which files are generated is random (rapid); offsets per file are enumerated as stated (coverage.exhaustive is true only '
                         'in the thorough tier)'],
         'tests': [{'run': '^TestC13Snapshot$',
                    'checks': {'quick': 300, 'thorough': 400},
                    'shards': {'quick': 1, 'thorough': 12},
                    'timeout': {'quick': 900, 'thorough': 3400},
                    'env': {'GOMAXPROCS': 1}},
                   {'run': '^TestC13Log$',
                    'checks': {'quick': 300, 'thorough': 600},
                    'shards': {'quick': 1, 'thorough': 4},
                    'timeout': {'quick': 900, 'thorough': 3400},
                    'env': {'GOMAXPROCS': 1}},
                   {'run': '^TestC13Parallel$',
                    'checks': {'quick': 25, 'thorough': 400},
                    'shards': {'quick': 1, 'thorough': 2},
                    'timeout': {'quick': 900, 'thorough': 3400}},
                   {'run': '^TestC13Big$',
                    'checks': {'quick': 4, 'thorough': 120},
                    'shards': {'quick': 1, 'thorough': 8},
                    'timeout': {'quick': 900, 'thorough': 3400},
                    'env': {'GOMAXPROCS': 1}}]},
 'C14': {'level': 'fault_enumeration',
         'rule': 'per generated collection (empty, <=120 rows, one block + 6 rows, 33000 rows thinned by a patterned delete; keyed or not; with or '
                 'without a LOG TAIL produced by transactions that the verif hooks run synchronously at snapshot:recorder-open / pre-chunk / '
                 'pre-close) a healthy probe measures W write calls and B bytes; then fault plans are ENUMERATED: fail-forever and fail-once at '
                 'EVERY write-call index 0..W, and fail after n accepted bytes for every n in 0..B when B<=600 (thorough: <=6000), otherwise every '
                 's2 frame boundary +-2, 0, B-1, B and 40 drawn n. Plans run in a drawn order on ONE collection (quick: <=120 plans per collection), '
                 'interleaved with generated transactions and, every 5th plan, a healthy snapshot that is restored and compared with the reference '
                 'model. Oracle: writer recorded a failure <=> Snapshot returned non-nil; after every call the set of /proc/self/fd entries pointing '
                 'at column_*.log and the column_*.log files in the private TMPDIR are unchanged; transactions keep matching the model; the healthy '
                 'snapshot restores to the model state. non-trivial = a plan whose writer failed after >=1 successful write/byte, directly followed '
                 'by a successful restore comparison; distinct = (collection, plan) | added later: in one snapshot call out of four a SECOND '
                 'Snapshot call is issued at a drawn yield point of the one in progress (from the snapshotting goroutine itself): it may be refused '
                 'or succeed, must leave no temp file or descriptor behind, and when it returns nil its output must restore to the row count of that '
                 'moment | since round 5: the first healthy snapshot of every case is restored and compared (also for collections without rows) | '
                 'since round 6: in large layouts with a plain string column some snapshots (failing and healthy) get a log tail of more than 1 MiB: '
                 'one bulk transaction re-writes the string of all ~33 000 rows at a drawn yield point | since round 8 the failing destination '
                 'returns, in rotation over the plans, an anonymous error, os.ErrClosed, a *fs.PathError wrapping os.ErrClosed (what a closed '
                 '*os.File returns), io.ErrClosedPipe, io.ErrShortWrite and ENOSPC',
         'assumptions': ['fault positions are enumerated per collection as described; which collections are tried is random (rapid)',
                         'descriptor/file leaks are counted by name pattern column_*.log so unrelated runtime descriptors cannot alarm'],
         'tests': [{'run': '^TestC14$',
                    'checks': {'quick': 30, 'thorough': 400},
                    'shards': {'quick': 1, 'thorough': 16},
                    'timeout': {'quick': 900, 'thorough': 3400},
                    'env': {'GOMAXPROCS': 1}}]},
 'C15': {'level': 'exploration',
         'rule': 'sequential part: model-based histories (single/multi-block, read-only, rolled back, failing inserts, key operations, prefills, '
                 'bulk deletes) on a collection whose logger records every commit AND forwards it through a real commit.Channel. Oracle per '
                 'transaction: the multiset of blocks of the commits it emitted == the set of blocks its committed operations touched in the '
                 'reference model (nothing for rollbacks, read-only and no-op transactions); stream-wide: every ID (also as received through the '
                 'channel) is non-zero and pairwise distinct and, per block, strictly increasing in record order. concurrent part (TestC15Sched): '
                 'generated writer programs under the cooperative scheduler with random and exhaustively enumerated schedules at the commit-protocol '
                 'yield points, same ID/ordering/exactly-once invariants over the recorded stream. non-trivial = a multi-block transaction '
                 '(sequential) / two tasks whose commits on one block were adjacent with both pre-latch points passed before either latched '
                 '(schedules); distinct = hash of trace/schedule | snapshot part (TestC15Snapshot): generated transactions commit WHILE a snapshot '
                 'is in progress (run by the verif hooks at recorder-open / pre-chunk / pre-close / pre-copy); each must still emit exactly one '
                 'commit per changed block to the logger, and the snapshot itself nothing | free-parallel part (TestParWriters): the same generated '
                 'programs (2..8 writer goroutines, 4..30 transactions each, single- and multi-block, puts, commutative and order-sensitive merges, '
                 'owned deletes, inserts; sparse and dense layouts, capacities 1/1024/16385) run with REAL parallelism on all cores (common start '
                 'barrier, pseudo-random processor yields at the hook points, also inside a block commit); the same oracles are evaluated at '
                 'quiescence from the recorded stream (record order of one block = apply order because the logger is called under the block latch); '
                 'failures are reported with program and stream and are not bit-reproducible | since round 5 the concurrent programs (controlled and '
                 'free-parallel) contain transactions that return an error after their last step (one in six; in "abort-heavy" free-parallel '
                 'programs every second one, with mostly inserts): nothing of them may apply, be emitted or stay reserved | relay (since round 5): a '
                 'second collection with a logger of its own replays every emitted commit, interleaved with local writes into the same block; the '
                 'stream IT emits must satisfy the same invariants (exactly one commit per replayed commit / local write, distinct non-zero IDs, '
                 'per-block increasing in its own apply order); transaction bodies that panic between steps (update/delete-only prefixes) emit '
                 'nothing | since round 6: every sequential history runs under a heartbeat watchdog (a step that makes no progress for 300 s ends '
                 'the process with a WATCHDOG-VIOLATION line: with one goroutine at work that is a lock which is never released); callbacks of '
                 'operations on EXISTING rows may fail too (the call reports the error, the stores stay buffered and commit); the harness record '
                 'codec has an optional field that its decoder leaves alone when absent (like encoding/json with omitted fields); string columns may '
                 'use a "set or append" merge that returns a sub-slice of its delta | since round 6: an archive of older commits is written and read '
                 'back in-process (Log.Append / Log.Range) between transactions: later IDs must still be fresh | TestC15Vacuum: rows with a short '
                 'time-to-live in one or two blocks; once the cleanup has removed them, the recorded stream replayed on a follower without a cleanup '
                 'of its own must reproduce the primary (what the cleanup commits is emitted), and the ID invariants hold over the whole stream | '
                 'since round 7: a transaction whose only write goes to a column that is dropped before it commits emits nothing | '
                 'TestC15ManyCommits: 2..3 blocks opened by ONE bulk transaction, then 600..3000 single-row transactions, most of them into one '
                 'block: all IDs distinct, per block increasing, exactly one commit each | since round 8 generated transactions may end by obtaining '
                 'typed column accessors that they only read (txn.Int64(name).Get(): an update buffer that stays empty) | since round 9 one '
                 'generated transaction in sixteen has an empty body (no effect, nothing emitted) | one generated transaction in six without '
                 'DeleteAt steps starts by narrowing its selection to nothing (WithValue(col, never) and Count) before its point and key operations, '
                 'which are independent of the selection | since round 9 half of the sequential histories run with a logger that REFUSES every 2nd '
                 'or 3rd commit (it records the commit, then returns an error: an anonymous one, os.ErrClosed, io.ErrShortWrite, ENOSPC, ... in '
                 'rotation); the collection must keep offering it every later commit, also the other blocks of the same transaction | since round 10 '
                 'the concurrent programs write one store in four through column accessors at the cursor (txn.X(col).Set/Merge) and one committing '
                 'transaction in four ends by obtaining an accessor that it only reads',
         'assumptions': ['record order at the logger is apply order (Append is called under the block latch)'],
         'tests': [{'run': '^TestC15$',
                    'checks': {'quick': 250, 'thorough': 2500},
                    'shards': {'quick': 1, 'thorough': 8},
                    'timeout': {'quick': 900, 'thorough': 3400},
                    'env': {'GOMAXPROCS': 1}},
                   {'run': '^TestSchedWriters$',
                    'checks': {'quick': 1500, 'thorough': 20000},
                    'shards': {'quick': 1, 'thorough': 8},
                    'env': {'VERIF_PROP': 'C15', 'GOMAXPROCS': 1},
                    'timeout': {'quick': 900, 'thorough': 3400}},
                   {'run': '^TestSchedWritersExhaustive$',
                    'env': {'VERIF_PROP': 'C15', 'VERIF_SCHED_LIMIT': {'quick': 2500, 'thorough': 200000}, 'GOMAXPROCS': 1},
                    'timeout': {'quick': 900, 'thorough': 3400}},
                   {'run': '^TestC15Snapshot$',
                    'checks': {'quick': 300, 'thorough': 4000},
                    'shards': {'quick': 1, 'thorough': 4},
                    'env': {'GOMAXPROCS': 1},
                    'timeout': {'quick': 900, 'thorough': 3400}},
                   {'run': '^TestParWriters$',
                    'checks': {'quick': 300, 'thorough': 6000},
                    'shards': {'quick': 1, 'thorough': 3},
                    'env': {'VERIF_PROP': 'C15'},
                    'timeout': {'quick': 900, 'thorough': 3400},
                    'shrinktime': '5s'},
                   {'run': '^TestC15Vacuum$',
                    'checks': {'quick': 40, 'thorough': 600},
                    'shards': {'quick': 1, 'thorough': 2},
                    'timeout': {'quick': 900, 'thorough': 3400}},
                   {'run': '^TestC15ManyCommits$',
                    'checks': {'quick': 30, 'thorough': 600},
                    'shards': {'quick': 1, 'thorough': 2},
                    'timeout': {'quick': 900, 'thorough': 3400},
                    'env': {'GOMAXPROCS': 1}}]},
 'C16': {'level': 'exploration',
         'rule': 'model-based stateful histories over a string column whose values come from a 5-value alphabet with forced duplicates (incl. the '
                 'empty string) and default / order-sensitive merge functions: inserts, overwrites (also to an existing value), merges, deletes, '
                 'reinserts, prefills of 3..16390 rows, patterned bulk deletes, rollbacks; the sort index is created before or after the data and '
                 'can be dropped and re-created; before Ascend a drawn filter: none, With/Without a bitmap index, WithString predicate, '
                 'With(column), or an ARBITRARY chain of 1..5 filters from the C04 grammar '
                 '(With/Without/Union/WithUnion/WithValue/WithInt/WithUint/WithFloat/WithString over indexes, columns and missing names) evaluated '
                 'by the C04 set-algebra model. Oracle: the offsets passed to the callback are exactly {selected rows holding a value}, each once; '
                 "the values read at the callback equal the model's and are non-decreasing. non-trivial = >=2 visited rows share a value after some "
                 'row was overwritten or deleted since the index was created; distinct = hash of the trace | parallel creation (TestC16Parallel): '
                 'the sort index is created (dropped, re-created) while 1..4 writers re-key, delete and insert rows over 2..4 blocks; judged at '
                 'quiescence | since round 6: every sequential history runs under a heartbeat watchdog (a step that makes no progress for 300 s ends '
                 'the process with a WATCHDOG-VIOLATION line: with one goroutine at work that is a lock which is never released); callbacks of '
                 'operations on EXISTING rows may fail too (the call reports the error, the stores stay buffered and commit); the harness record '
                 'codec has an optional field that its decoder leaves alone when absent (like encoding/json with omitted fields); string columns may '
                 'use a "set or append" merge that returns a sub-slice of its delta | since round 8 generated transactions may end by obtaining '
                 'typed column accessors that they only read (txn.Int64(name).Get(): an update buffer that stays empty) | since round 8 a sort index '
                 'is dropped with DropIndex or with DropColumn(indexName) ("removes the column (or an index) with the specified name") and half of '
                 'the re-creations re-use the name of the index that was dropped last | since round 9 one generated transaction in sixteen has an '
                 'empty body (no effect, nothing emitted) | one generated transaction in six without DeleteAt steps starts by narrowing its '
                 'selection to nothing (WithValue(col, never) and Count) before its point and key operations, which are independent of the selection',
         'assumptions': ['quiescent checks (no writer runs during Ascend)'],
         'tests': [{'run': '^TestC16$',
                    'checks': {'quick': 300, 'thorough': 3000},
                    'shards': {'quick': 1, 'thorough': 16},
                    'timeout': {'quick': 900, 'thorough': 3400},
                    'env': {'GOMAXPROCS': 1}},
                   {'run': '^TestC16Parallel$',
                    'checks': {'quick': 60, 'thorough': 1500},
                    'shards': {'quick': 1, 'thorough': 2},
                    'timeout': {'quick': 900, 'thorough': 3400},
                    'shrinktime': '5s'}]},
 'C17': {'level': 'exploration',
         'rule': 'generated cases (16 run concurrently, each with its own collection and REAL background vacuum): cleanup interval in {1,5,20} ms; '
                 '2..12 rows drawn from {no TTL, TTL 0, short TTL 10-60 ms, long TTL >= 1 h, 2 s TTL extended by 1 h right away, long TTL re-set to '
                 'a short one}; one case in eight first fills a whole 16K block with rows that never expire and then runs ONE slow transaction that '
                 'reserves 30 offsets in the next block while the cleanup ticks (every offset must be handed out once, all rows must survive); one '
                 'case in three has 2..6 goroutines extend one long-TTL row 25 times by 1 min each at once (the stored deadline must be the initial '
                 'one plus ALL extensions, exactly); optionally a concurrent goroutine doing unrelated merges on ALL rows, inserts with TTL and '
                 'deletes while the vacuum runs; optionally the same through snapshot->restore or through a stream replica, whose own vacuum must '
                 "then behave identically and whose stored deadlines are compared bit-for-bit with the primary's. Oracle: safety (exact) at every "
                 'sample and at the end - every row whose deadline is absent, zero or more than 1 s in the future is present; liveness (bounded) - '
                 'every row whose deadline passed is gone within max(50 intervals, 10 s); rows within 1 s of their deadline are not judged; '
                 'Row.TTL() of long/extended rows is within 2 s of the deadline. non-trivial = the case has both a row that expired and was removed '
                 'and a surviving row observed over >= 12 cleanup intervals; distinct = the generated case | mode 3 (added later): a live stream '
                 'follower with a cleanup interval of 1 h replays every commit the primary emits as it arrives; once the primary has removed every '
                 'expired row (and again after rows without a TTL re-used their offsets) primary and follower must hold the same ids at the same '
                 'offsets with bit-identical deadlines and equal Count: what the cleanup removes must reach the change stream. The sampling loop '
                 'reads the clock BEFORE judging, so a deadline that passes during a pass cannot end the loop early | since round 5: rows whose '
                 'short TTL is taken away again with SetTTL(0) / TTL().Set(0) must never expire | TestC17PooledClock: K nested read-only queries put '
                 'K pooled transaction objects into use, 1.3-1.7 s later K nested inserts give their rows a TTL slightly longer than that idle '
                 'period: each row must be present while "call time + ttl" is more than a second away | since round 6: an hour-long TTL shortened to '
                 'a few milliseconds with a NEGATIVE Extend must expire | TestC17SlowVacuum (since round 7): cleanup interval 1.5 s, rows with a TTL '
                 'of 2.9 s must survive the pass that looks at them 1.4 s before their deadline | TestC17SlowVacuum (round 8) also holds a keyed '
                 'collection with the same 1.5 s cleanup interval: a row with a 50 ms TTL is overdue but still owns its key until the cleanup comes '
                 'by; every 100 ms InsertKey of that key WITHOUT a TTL is attempted; whatever the call answers, a row that it reported as created is '
                 'never removed (sampled every 100 ms for 3.6 s, across two cleanup passes) | TestC17ManyRows (round 8): a cleanup interval of 1 ms '
                 'over 300 000 rows that carry a deadline one hour away (19 blocks; one pass takes longer than the interval): the 3 rows at the '
                 'highest offsets, with a 50 ms TTL, must be gone within 20 s of their deadline (presence by id through a full Range), and Count '
                 'must then be exactly the 300 000 others',
         'assumptions': ['wall-clock property: margins (1 s safety guard band, 10 s liveness bound = >200x the expected latency) instead of a clock '
                         'hook; a run on a machine stalled for more than the margins would be inconclusive, never a violation of safety',
                         'timing is not reproducible bit-for-bit; the case (rows, TTLs, interval, mode) is'],
         'tests': [{'run': '^TestC17$',
                    'checks': {'quick': 30, 'thorough': 150},
                    'shards': {'quick': 1, 'thorough': 2},
                    'timeout': {'quick': 900, 'thorough': 3400}},
                   {'run': '^TestC17PooledClock$',
                    'checks': {'quick': 3, 'thorough': 20},
                    'shards': {'quick': 1, 'thorough': 2},
                    'timeout': {'quick': 900, 'thorough': 3400},
                    'shrinktime': '5s'},
                   {'run': '^TestC17SlowVacuum$', 'timeout': {'quick': 900, 'thorough': 3400}},
                   {'run': '^TestC17ManyRows$', 'timeout': {'quick': 300, 'thorough': 300}}]},
 'C18': {'level': 'exploration',
         'rule': 'generated concurrent programs (rapid): 4..16 goroutines drawn from 11 worker kinds - transactions growing the collection across '
                 'blocks (with bulk deletes and reuse), point reads of every column kind, filtered iteration (index / typed / value filters), '
                 'aggregates, insert+delete with TTL, Snapshot, Restore into OTHER collections, CreateIndex/DropIndex, key operations, '
                 'updates/merges incl. enum/string/bool, CreateSortIndex/Ascend - beside a 5 ms vacuum, run with real parallelism on 16 cores in a '
                 '-race binary (GORACE halt_on_error=0) for a fixed time per program; every goroutine is under a 30 s watchdog after the stop '
                 'signal. Oracle: the Go race detector (happens-before based: it needs the unsynchronised accesses to occur, not the harmful '
                 'interleaving); its reports are parsed, reduced to the unordered pair of innermost github.com/kelindar/column frames and '
                 "de-duplicated; a pair is attributed to a listed finding when either side matches the finding's mutator pattern, any other pair is "
                 'a violation; a watchdog expiry is a violation. Serialized schedules explored by the cooperative scheduler in the C06/C08/C09/C15 '
                 'runs report a step that never completes as a hang in those runs. non-trivial = a program in which new blocks were added while '
                 'readers ran AND >=1 snapshot and >=1 index build overlapped writers (measured with counters); distinct = the generated program | '
                 'two further targeted workloads (not tied to a listed finding): block growth (17 000-row inserts) beside commits on existing blocks '
                 'and snapshots; index build beside readers of that very index through the Go read paths (Row.Bool(index), txn.Bool(index).Get() in '
                 'Range, WithValue(index)) - the assembly bitmap kernels behind With/Without/Union are invisible to the race detector; readers are '
                 'gated so that they never name an unregistered index | since round 5: failing inserts (row callback returns an error) and '
                 'rolled-back inserting transactions in the insert/delete worker and in a targeted workload | race attribution since round 5: a '
                 'listed finding may restrict the PARTNER access (other=<regex>); reports whose partner is an Apply or a Grow are never attributed '
                 'to the growth-vs-load finding | since round 6: record merges committed into different blocks at the same time (random programs and '
                 'a targeted workload) | since round 7: TestC18ManyBlocks (plain binary): a collection of 130 blocks - blocks b and b+128 share a '
                 'latch shard - is built, indexed, written by one transaction on two blocks of one shard, snapshotted; under a 90 s watchdog | '
                 'targeted workload: a commit.Channel change stream consumed by a goroutine that replays into a replica while transactions alternate '
                 'between two blocks',
         'assumptions': ['the race detector only reports races that actually execute in the run',
                         "which listed finding a report belongs to is decided by the unsynchronised mutator's function name (known_findings.txt "
                         'race=<regex>)'],
         'tests': [{'run': '^TestC18Race$',
                    'race': True,
                    'checks': {'quick': 30, 'thorough': 50},
                    'shards': {'quick': 1, 'thorough': 12},
                    'env': {'VERIF_C18_MS': {'quick': 400, 'thorough': 1500}},
                    'timeout': {'quick': 900, 'thorough': 3400},
                    'par': 4},
                   {'run': '^TestC18Targeted$',
                    'race': True,
                    'env': {'VERIF_C18_MS': {'quick': 500, 'thorough': 2000}},
                    'timeout': {'quick': 900, 'thorough': 3400},
                    'par': 4},
                   {'run': '^TestC18ManyBlocks$', 'timeout': {'quick': 900, 'thorough': 3400}}]},
 'C19': {'level': 'exploration',
         'rule': 'model-based stateful histories on numeric and string columns (all widths, additive / order-sensitive / same-length merge '
                 'functions): transactions with puts, merges, several writes to one row, own-insert updates, deletes, rollbacks, multi-block '
                 'prefills and bulk deletes; triggers (up to 3 live, several per column) are created and dropped mid-history. Oracle per transaction '
                 'and trigger: the calls received == model events - for every committed store to the watched column (offset, value finally stored '
                 'AFTER merge) with stores of one row in issue order, exactly one delete call per deleted row, nothing for rolled-back transactions, '
                 'nothing after DropTrigger. non-trivial = a transaction with a merge followed by a later put on the same row, a row delete, or a '
                 'rollback while a trigger existed; distinct = hash of the trace | action armDropInsideCommit: the next call of trigger A (inside a '
                 "commit) drops trigger B of the same column; every OTHER trigger must still receive exactly its events (B's calls in that "
                 'transaction are not judged) | added later: triggers on bool (store of false and row deletion are one operation there: judged by '
                 'counts), enum and record columns; DeleteAll bulk deletes | parallel creation (TestC19Parallel): 2..8 goroutines create triggers '
                 '(and indexes) at the same moment, 100..600 rounds per case; afterwards one committed store and one committed row deletion must '
                 'reach every trigger exactly once with the stored value, every created trigger/index can be dropped, and nothing is called after '
                 'its drop | since round 5: a trigger created / dropped at the moment the next committing transaction stands in front of its first '
                 'block latch (yield point commit:pre-latch, issued from the committing goroutine): the created one must be told everything of that '
                 'commit, the dropped one nothing | since round 6: every sequential history runs under a heartbeat watchdog (a step that makes no '
                 'progress for 300 s ends the process with a WATCHDOG-VIOLATION line: with one goroutine at work that is a lock which is never '
                 'released); callbacks of operations on EXISTING rows may fail too (the call reports the error, the stores stay buffered and '
                 'commit); the harness record codec has an optional field that its decoder leaves alone when absent (like encoding/json with omitted '
                 'fields); string columns may use a "set or append" merge that returns a sub-slice of its delta | TestC19ParallelStores: one '
                 'trigger, 2..4 writers that commit unique stores, merges and deletions into DIFFERENT blocks at the same moment; at quiescence '
                 'every committed store/deletion was reported exactly once with the stored value and nothing else was reported | since round 8 '
                 'generated transactions may end by obtaining typed column accessors that they only read (txn.Int64(name).Get(): an update buffer '
                 'that stays empty) | since round 9 one generated transaction in sixteen has an empty body (no effect, nothing emitted) | one '
                 'generated transaction in six without DeleteAt steps starts by narrowing its selection to nothing (WithValue(col, never) and Count) '
                 'before its point and key operations, which are independent of the selection',
         'assumptions': ['bool columns are not watched (a false store is encoded as the delete op-code by design)',
                         'stores into a row that the same transaction also deletes are not judged (only its single delete call is)'],
         'tests': [{'run': '^TestC19$',
                    'checks': {'quick': 400, 'thorough': 4000},
                    'shards': {'quick': 1, 'thorough': 16},
                    'timeout': {'quick': 900, 'thorough': 3400},
                    'env': {'GOMAXPROCS': 1}},
                   {'run': '^TestC19Parallel$',
                    'checks': {'quick': 40, 'thorough': 1500},
                    'shards': {'quick': 1, 'thorough': 2},
                    'timeout': {'quick': 900, 'thorough': 3400},
                    'shrinktime': '5s'},
                   {'run': '^TestC19ParallelStores$',
                    'checks': {'quick': 100, 'thorough': 3000},
                    'shards': {'quick': 1, 'thorough': 2},
                    'timeout': {'quick': 900, 'thorough': 3400},
                    'shrinktime': '5s'}]}}
