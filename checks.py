"""Per-property table used by run.py: which harness tests decide a property, with what budgets."""

CHECKS = {
    "C05": {
        "level": "exploration",
        "rule": ("op sequences over {delete, insert, bool, put/merge x 2/4/8-byte, byte strings of length 0..65535} x offset moves "
                 "{same,+1,+small,>=128,>=16384,>=2^21,backwards,block jump,back to block 0,revisit}: exhaustively all short sequences over an "
                 "80-letter alphabet (see exhaustive_over) and randomly (rapid) up to length 300; oracle = the written list, compared with "
                 "Seek+Next, Range per block, Clone, Buffer/Commit codec, Log.Append/Range and a merge->put swap pass. "
                 "non-trivial = the sequence has >=2 of {negative delta, block switch, >=3-byte varint delta, interleaved blocks, "
                 "swap with different length}; distinct = hash of the rendered op list"),
        "assumptions": ["offsets < 2^31 and byte strings <= 65535 bytes (format limits)",
                        "merge operations always carry a value (as every caller in kelindar/column does)"],
        "tests": [
            {"run": "^TestC05Exhaustive$", "timeout": {"quick": 600, "thorough": 3000}},
            {"run": "^TestC05Random$", "checks": {"quick": 8000, "thorough": 40000}, "shards": {"quick": 1, "thorough": 16},
             "timeout": {"quick": 600, "thorough": 3000}},
        ],
    },
}
